#!/venv/bin/python
"""Regenerates MANIFEST.json from the table below (keeps it valid and in step with the checks that exist)."""
import json
import os

HERE = os.path.dirname(os.path.dirname(os.path.abspath(__file__)))

ALL = [f'C{i:02d}' for i in range(1, 21)]

# property -> dict(engine, technique, text, note, design_ref)
CLAIMED = {
    'C05': dict(
        engine='schedex',
        technique='stateless model checking of the real threads: exhaustive delay-bounded schedule enumeration x stop/failure positions',
        text='Every schedule with at most d deviations (d=2 quick, d=3 thorough for buffer; d=1/2 for parmap) of the real '
             'Buffer / fifo_stream / Parmapper code, for every stop and failure position of a small stream and buffer '
             'sizes 1..3, is executed under a controlled scheduler; each execution is checked for termination, exact '
             'output prefix, single delivery of the first failure and absence of leftover threads. A hang is a '
             'deadlock/livelock verdict with the stuck functions named. Bounded-exhaustive, not a proof for all sizes.',
        note='real mpservice code, real stdlib Queue/Event/Future/ThreadPoolExecutor on simulated Lock/Condition; '
             'interleavings at line granularity of the traced functions; thread executor only (process pools are outside '
             'the scheduler)',
        design_ref='DESIGN.md 4 C05'),
}

CLAIMED.update({
    'C01': dict(
        engine='schedex',
        technique='stateless model checking of the real threads: exhaustive delay-bounded schedule enumeration x all completion orders of the futures',
        text='Real fifo_stream / Stream.parmap code under a controlled scheduler. An environment thread resolves the '
             'pending futures in every order (free choice points, enumerated completely) while every schedule of feeder, '
             'consumer and pool workers with at most d deviations is explored (d=1 quick, d=2 thorough). Each execution is '
             'compared with a list-comprehension reference: values, exception objects, (x, y) pairing, order, exactly-once '
             'calls. Covers capacity 1-3 so that the hand-off queue wraps. Bounded-exhaustive, n <= 4.',
        note='thread executor explored; for the process executor fifo_stream only sees futures and every completion order '
             'is enumerated; the ProcessPoolExecutor wiring is bound to that model by a free-running twin on real worker '
             'processes (54 settings incl. inverted completion order), not explored',
        design_ref='DESIGN.md 4 C01'),
    'C08': dict(
        engine='schedex',
        technique='stateless model checking: state invariant evaluated at every scheduling point of every explored schedule',
        text='The look-ahead (pulled - received) and running-call counters of instrumented source / consumer / worker are '
             'checked against capacity+3, buffer n+2 and concurrency at EVERY scheduling point of every schedule within '
             'the delay bound (d=1 quick, d=2/3 thorough; environment completion choices count as deviations), for streams '
             'longer than twice the capacity, and for a second round on the same Stream right after a round that ended '
             'early (left-over calls count). The maxima actually reached are reported (they reach the bounds, so the '
             'harness is not vacuous).',
        note='bounds taken from the property statement; counters are sampled at scheduling points (line granularity of the '
             'traced library functions)',
        design_ref='DESIGN.md 4 C08'),
    'C10': dict(
        engine='schedex',
        technique='stateless model checking with line-level preemption in Fork.__next__: exhaustive delay-bounded schedule enumeration x source failure positions',
        text='Real tee() with 2-3 forks, window 2-3, sources of length 0,1,3,5 failing at every interesting position. '
             'Fork.__next__ is traced line by line, all schedules with <= d deviations (2 forks: d=2 quick / 3 thorough; '
             '3 forks: d=1 / 2). Oracle: identical element lists, identical ending (exhaustion or the source exception), '
             'one pull per element, pull-ahead invariant at every point, no deadlock, no livelock of the timed-acquire loop.',
        note='timers fire only when no thread can run (the 0.1 s timed acquisition is a polling loop); spinning beyond the '
             'horizon is reported as a hang',
        design_ref='DESIGN.md 4 C10'),
})

CLAIMED.update({
    'C02': dict(
        engine='schedex',
        technique='stateless model checking of the real server threads: exhaustive delay-bounded schedule enumeration x worker release orders x identity-allocator answers',
        text='Real Server with thread servlets in every composition (single 1-2 workers, sequential, ensemble with/without '
             'fail_fast, switch, batching) driven by 2-3 concurrent callers and a stream. Stage outputs are tagged with '
             'stage and input so any cross-talk is visible. An environment thread releases gated worker calls in every '
             'order; all schedules with <= d deviations (d=1-2 quick, 2-3 thorough). The ids harness rebinds id() in the '
             'server module to a model allocator that answers fresh-or-any-recycled (free choice, fully enumerated). The same '
             'oracle runs on AsyncServer (tasks on a virtual loop) and on servlet trees with worker PROCESSES behind the '
             'simulated process boundary (gated process workers, 16-24 simulated threads).',
        note='process servlets run behind a model of multiprocessing (simproc), not as OS processes; timers fire only when '
             'nothing can run; deadlines are virtual and generous so a TimeoutError is a lost response',
        design_ref='DESIGN.md 4 C02'),
    'C04': dict(
        engine='schedex',
        technique='stateless model checking: exhaustive delay-bounded schedule enumeration x enumerated fault sites and failing subsets',
        text='Same real server harness as C02 with injected failures: failing subsets (1-2 of 3-4 requests) x site (call, '
             'preprocess, ensemble member A/B/both, stage index) x fail_fast x batching (failing and healthy requests share '
             'a batch or not depending on the explored schedule) x stream(return_exceptions). Oracle: own exception type '
             'and args with the traceback naming the failure site, EnsembleError per the documented rule carrying only '
             'this request\'s member outcomes, every other request correct, exactly the members of the failing call() '
             'invocation fail.',
        note='process servlets (harness pfaults) run behind the simulated process boundary: exceptions cross a pickling pipe, so '
             'the traceback of the failure site must arrive as text',
        design_ref='DESIGN.md 4 C04'),
    'C06': dict(
        engine='schedex',
        technique='stateless model checking: state invariant (backlog <= capacity) at every scheduling point of every explored schedule',
        text='Real Server (capacity 1-2) with 2-3 racing callers, mixed backpressure, failures, slow (gated) workers and an '
             'abandoned stream. len(ledger) <= capacity is evaluated at EVERY scheduling point of every schedule with <= d '
             'deviations (d=2 on the capacity-1 core, 1 elsewhere; thorough +1). End oracles: immediate ServerBacklogFull '
             'with backpressure, bounded enqueue wait on the virtual clock (timers in deadline order), backlog 0 when idle. '
             'A separate harness lets deadlines expire at any point (timers=all). Slow-worker configurations (the environment '
             'holds calls for 1-1.5 virtual s) make waiters wake up, lose the slot and wait again. The same races on AsyncServer.',
        note='elapsed-time assertions only in the harnesses where timers fire in deadline order',
        design_ref='DESIGN.md 4 C06'),
    'C07': dict(
        engine='schedex',
        technique='stateless model checking with timer deviations: deadline expiry placed at every scheduling point of the gather thread',
        text='A call with a finite virtual deadline races the delivery of its own (gated) result; with timers=all the '
             'explorer fires the deadline at every scheduling point (one deviation each, d=2 on the core harness), next to '
             'an unbounded caller and a later request, also on a saturated (capacity 1) server with a waiter; plus a stream '
             'consumer closing after k outputs; plus the same abandonments on AsyncServer. Oracle: abandoned '
             'call times out or gets its own result, all others correct and not stalled, gather thread alive until shutdown, exit returns.',
        note='slowness is bounded: a timer more than 50 virtual seconds away never fires early, so unbounded deadlines stay unbounded',
        design_ref='DESIGN.md 4 C07'),
    'C17': dict(
        engine='schedex',
        technique='stateless model checking of the real threads: exhaustive delay-bounded schedule enumeration, two rounds separated by renew()',
        text='Real IterableQueue over queue.Queue with 1-2 suppliers x 1-3 consumers x bounded/unbounded queue, two rounds with '
             'renew(); put_end/__next__/renew traced line by line; all schedules with <= 2 deviations (3 thorough). Oracle '
             'per round: multiset received == put, no None delivered, every consumer ends, renew succeeds, exactly one end '
             'marker left. iq_eager: long-lived consumers that start over while renew() runs. iq_seq: EVERY legal single-threaded '
             'sequence of put / put_end / next / renew (<= 9 ops with 1 supplier, <= 7 with 2; thorough 11 / 9) against a '
             'reference model, each completed by a drain, a renew and a further round. ResponsiveQueue: blocked get/put raise '
             'StopRequested within the wait interval for every stop moment.',
        note='thread queues, plus the token queues in simulated multiprocessing queues (harness iq_mp, feeder-thread asynchrony '
             'modelled); rounds are separated by renew() as the property says (see DESIGN 0.7 for the wait_for_renew mode)',
        design_ref='DESIGN.md 4 C17'),
    'C19': dict(
        engine='schedex',
        technique='exhaustive enumeration of arrival-gap vectors on a virtual clock x delay-bounded schedules',
        text='Real EagerBatcher on a real queue.Queue; a producer thread sleeps environment-chosen virtual gaps from '
             '{0, w/2, w, 3w/2} before each of 0-5 items and the end marker (every gap vector enumerated), batch_size 1-3, '
             'wait 0 / w, None and custom end markers, plus one scheduling deviation for n<=4. Exact timing oracle on the '
             'virtual clock.',
        note='the consumer of the batches takes no time between batches',
        design_ref='DESIGN.md 4 C19'),
})

CLAIMED.update({
    'C03': dict(
        engine='seqex',
        technique='bounded-exhaustive enumeration of operator programs x inputs against a reference interpreter (explicit enumeration, no sampling)',
        text='Every type-correct operator sequence up to length 3 (thorough 4) over 35 operator instances with boundary '
             'parameters and documented parameter forms x 8 inputs (empty, singleton, 0..4, exception objects, nested lists, None '
             'elements, opaque elements whose == is element-wise) x 3 consumption modes runs the '
             'real Stream and a lazy generator reference; shuffle is a permutation for 3 seeds; construction pulls nothing '
             'and k outputs pull at most k + sum(slack) source elements for all chains of one-to-one operators up to length 3.',
        note='pipelines with buffer/parmap run under the controlled scheduler with the default schedule (a hang is a deadlock '
             'verdict); their schedules are C01/C05/C08. The program space beyond the length bound is not covered.',
        design_ref='DESIGN.md 4 C03'),
    'C15': dict(
        engine='seqex',
        technique='complete enumeration of exception classes x depths x hop sequences x nesting through real pickle round trips',
        text='9 exception classes (builtin, OSError, UnicodeDecodeError, custom attribute, keyword-only __init__ with '
             '__reduce__, BaseException subclass, __cause__, __context__) x raise depth 1/2/4 x 1-3 hops (4 thorough) x every '
             'per-hop mode vector (forward / re-raise and wrap) x 5 nestings in EnsembleError: all cases enumerated, each really '
             'raised, wrapped and pickled. Plus one conformance case per class through a real spawned child process.',
        note='input alphabet is finite; other exception classes are outside it',
        design_ref='DESIGN.md 4 C15'),
    'C16': dict(
        engine='seqex + schedex',
        technique='complete enumeration of per-call virtual durations (all completion orders) on a virtual event loop, differential against the sync code; delay-bounded schedule exploration for AsyncServer',
        text='async_fifo_stream and AsyncStream.parmap run for EVERY duration vector from {0,1,2,3}^n, n<=4, x failing position x '
             'preprocessor-rejected position (incl. the first element) x capacity x return_x x return_exceptions on a virtual '
             'event loop, compared with the real sync fifo_stream on the same inputs and with the reference list. '
             'AsyncServer.call/stream is explored with the gather/worker threads under the controlled scheduler against the '
             'same per-request reference that Server is checked against in C02/C04 (incl. saturated and backpressure cases). '
             'The thread/loop hybrids ParmapperAsync and AsyncParmapper are explored under the scheduler (n=3, d<=1/2). '
             'SyncIter / AsyncIter / AsyncStream.buffer carry opaque elements (element-wise ==) through untouched.',
        note='inside one event loop the ready queue is FIFO and deterministic; the enumerated durations are the only source of '
             'completion-order nondeterminism there.',
        design_ref='DESIGN.md 4 C16'),
})

CLAIMED.update({
    'C09': dict(
        engine='schedex',
        technique='stateless model checking with virtual time: exhaustive arrival-gap vectors x delay-bounded schedules of collector, consumer and competing workers',
        text='Real Worker.start of an instrumented subclass (records every call() argument and its virtual time), batch_size '
             '0-3, batch_wait_time 0 / w, 3-5 requests after every gap vector from {0, w/2, w, 2w}, exception values and '
             'preprocess rejections, a second competing worker, an in-worker thread pool, and a 14-request run with gated '
             'call() that fills the collector buffer (batch_size+10). Oracle: well-formed batches of genuine inputs, every '
             'accepted request in exactly one batch, own errors for rejected ones, one correct output per request, batch '
             'released no later than first element + wait (exact on the virtual clock; the end marker arrives after an '
             'environment-chosen pause of its own, so the last partial batch cannot count on it). Harness collector_full opens the gate at '
             'the moment the collector buffer becomes full and explores d<=2 on the collector (found the lost wake-up).',
        note='thread queues; call() takes no virtual time in the timing oracle',
        design_ref='DESIGN.md 4 C09'),
    'C11': dict(
        engine='schedex + simproc',
        technique='stateless model checking: enumerated failing worker position x workloads x enter/exit cycles, delay-bounded schedules; process servlets behind a simulated process boundary',
        text='Real Server over servlet trees {Thread(2), Sequential, Ensemble, Switch, batching}: every (servlet, worker index) '
             'fails in __init__ -> __enter__ raises that error and no thread survives; after workloads (successes, failure, '
             'timed-out call, abandoned stream) exit, re-enter, serve, exit: every worker and helper thread gone each time. '
             'The same with ProcessServlets whose worker processes are simulated processes behind pickling pipes with a tiny '
             'byte capacity (abandoned inputs exceed the pipe; two competing workers per stage), and with AsyncServer. Also: '
             'three workers with the last one failing; a stream abandoned by break and closed only after the exit; requests of '
             'an abandoned stream still in flight at exit (batching worker); the ledger must be empty at the next enter.',
        note='process side is a model of multiprocessing (pipes, queues, Popen) validated by the real-process twins of C12/C20',
        design_ref='DESIGN.md 4 C11'),
    'C12': dict(
        engine='schedex + simproc',
        technique='stateless model checking with crash-point enumeration: a kill of the child at every scheduling point of the simulated child process x accessor orders',
        text='mpservice Thread: 9 ways the target ends x which accessor is used first right after start() (join, result, '
             'exception, done, wait, as_completed) x all schedules with <= 2 deviations. SpawnProcess behind the simulated '
             'process boundary: the same plus SIGKILL/SIGTERM at EVERY scheduling point of the child (free crash choice per '
             'point) x first accessor. Oracle: every accessor returns, values/exceptions/exit codes agree, traceback text '
             'kept, a kill surfaces as OSError and completes wait/as_completed; also terminate() by the parent right after '
             'start(), and a refused second start() that must leave the recorded outcome as it was. Twins: 5 real children '
             'incl. real SIGKILL/SIGTERM.',
        note='crash granularity = scheduling points of the traced child code and blocking operations',
        design_ref='DESIGN.md 4 C12'),
    'C13': dict(
        engine='histex + schedex',
        technique='explicit-state breadth-first search over operation histories, every transition executed on a real manager server and real client processes; delay-bounded schedule exploration of the real Server object for the races between its handler threads',
        text='BFS over histories of {pickle, unpickle once, drop, store in / take from / clear a hosted list, drop the container '
             'while it holds proxies, another managed() proxy of the same value, spawn a child with the proxy as argument (kept or '
             'given away), agent exits} across driver + 2 agent processes for a managed list, a shared-memory '
             'MemoryBlock and a managed() return value; canonical state = holder multiset of the reference model (counts '
             'capped at 2); depth 5 (thorough 9). After every transition: gc in all processes incl. the server, then '
             'debug_info refcount == model, every live proxy usable, /dev/shm block exists iff held; finally nothing hosted; when '
             'nothing refers to the value it must be gone before the client sends its next request; a history that makes no '
             'progress for 60 s is a violation. server_races: the real manager Server object (never serving a socket) with '
             'its create / incref / decref called from 2-3 scheduled threads: dropping the last proxy vs hosting the same value '
             'again, all schedules with <= 2 deviations (thorough 3).',
        note='histories: real processes, synchronous RPCs (no scheduler nondeterminism), 6 independent server groups in parallel',
        design_ref='DESIGN.md 4 C13'),
    'C14': dict(
        engine='histex',
        technique='bounded-exhaustive enumeration of operation sequences x issuers against a local reference object, executed on a real manager server',
        text='All operation sequences to depth 2 (3 for Namespace, Value, custom class, empty list; thorough: depth 3 '
             'everywhere, 4 with one value per operation) over list (32 ops incl. in-place operators and iteration), dict (21), '
             'Namespace (8), Value (3) and a registered custom class (raises a custom exception, returns managed_list, calls a '
             'nested proxy that raises) x issuer vectors over {driver thread 1, driver thread 2, agent process}. '
             'Each step compared with the same call on a local object: value, or exception type/args + remote traceback; '
             'final state compared through the driver proxy and the agent proxy. Two fixed scenarios on real processes: a '
             'manager with its own authkey and a nested proxy; a hosted class that calls managed() in its constructor.',
        note='argument alphabet {0, "a", (1,[2])}; dict views have nothing to round-trip (may raise or return their content)',
        design_ref='DESIGN.md 4 C14'),
    'C18': dict(
        engine='seqex + schedex',
        technique='exhaustive enumeration of chunkings x gap vectors (framing) and duration vectors (server) on a virtual event loop; delay-bounded schedule exploration of the client; real-FIFO / real-socket conformance runs',
        text='Framing: real write_record bytes fed to a real StreamReader in every chunking into <= 3 chunks x gaps from '
             '{0, .05, .1, .25} s (reader timeouts in between) for 7 payload kinds incl. header look-alikes and a 200 KiB blob, '
             '1-2 records. Server: real _handle_connection with 3 requests x every handler-duration vector x failing handler x '
             'backlog. Client: real SocketClient with in-memory connections to a scripted server answering in every order, 2 '
             'requester threads + stream + a timed-out request with ids from the model allocator, d<=2. Named pipe: EVERY history of <= 7 operations (thorough 9) over {create end, send, recv, close} x 2 ends on real FIFOs against a reference model, each in a forked child with a watchdog; all 798 payload sequences of length <= 3 in both directions on real '
             'FIFOs; one real unix-socket run with 48 requests incl. a 2.4 MB payload.',
        note='kernel scheduling of the real FIFO / socket runs is not controlled',
        design_ref='DESIGN.md 4 C18'),
    'C20': dict(
        engine='schedex + simproc',
        technique='stateless model checking of parent and child protocol code behind a simulated process boundary: record counts x pipe capacities x delay-bounded schedules',
        text='Real SpawnProcess.start/run/_collect_result/_run_logger/join/_finalize with the child side as simulated threads: '
             'pickling pipes with capacity 1 record / 2 records / 64 KiB, multiprocessing.Queue with per-process feeder threads '
             'joined at process exit, per-process logging hierarchies. N in {0,1,2,3,5} records, target returns / raises / '
             'sys.exit(2). Oracle: parent handler got exactly the emitted records >= its level, once, in order; join/result '
             'return; exit code; no thread left after finalization; a slow parent handler; a 1500-record burst; a child that is '
             'silent for 1-3 virtual s and then logs and exits at once (also with timer deviations, against polling readers). '
             'Twins: real children with 4 / 300x100 B / 50x2 kB records.',
        note='the boundary is a model of CPython multiprocessing; it predicted both real failures (212 of 300 records; hang) '
             'on the unfixed tree, confirmed by the real twins',
        design_ref='DESIGN.md 4 C20'),
})

PENDING_REASON = 'check not built yet in this session (planned, see DESIGN.md section 4); not claimed until it runs'


def main():
    checks = []
    for pid in ALL:
        c = CLAIMED.get(pid)
        if not c:
            continue
        checks.append(dict(
            property_id=pid,
            quick_cmd=f'bin/check {pid} --tier quick',
            thorough_cmd=f'bin/check {pid} --tier thorough',
            evidence_file=f'evidence/{pid}.json',
            replay_cmd_template=f'bin/check {pid} --replay {{path}}',
            engine=c['engine'],
            level_claimed=dict(category='model_checking', text=c['text'], design_ref=c['design_ref']),
            level_note=c['note'],
            technique=c['technique'],
        ))
    man = dict(
        version=1,
        setup_cmd='/venv/bin/python -c "import sys; assert sys.version_info[:2] >= (3, 12); import mpservice" && chmod +x bin/check',
        hooks=dict(guard='MPSERVICE_VERIF',
                   enable='no source hooks: all instrumentation is applied from outside by rebinding module-level names '
                          '(threading.Lock/RLock/Condition, queue.SimpleQueue, time functions, event-loop policy) in the '
                          'checker worker processes; checks read /repo/src through PYTHONPATH',
                   baseline_off_cmd='cd /repo && /venv/bin/python -m pytest -ra -q -p no:cacheprovider --timeout=900 --continue-on-collection-errors',
                   source_commits=[], add_only=True),
        engines=[
            dict(name='seqex', path='mc/explore.py (kind=cases), checks/c03.py, checks/c15.py, checks/c16.py',
                 serves_properties=[p for p, c in CLAIMED.items() if 'seqex' in c['engine']],
                 kind_free_text='bounded-exhaustive enumeration of programs / inputs / duration vectors against a reference '
                                'interpreter, cases spread over the worker pool'),
            dict(name='histex', path='mc/histex.py, checks/c13.py, checks/c14.py',
                 serves_properties=[p for p, c in CLAIMED.items() if 'histex' in c['engine']],
                 kind_free_text='explicit-state BFS over operation histories executed on a real manager server process and '
                                'real agent processes, reference-model canonical states'),
            dict(name='simproc', path='mc/simproc.py',
                 serves_properties=[p for p, c in CLAIMED.items() if 'simproc' in c['engine']],
                 kind_free_text='simulated process boundary for schedex: pickling pipes with byte capacity, mp.Queue with '
                                'feeder threads, Popen transcription, crash points; bound to real processes by conformance twins'),
            dict(name='schedex', path='mc/sched.py, mc/explore.py',
                 serves_properties=[p for p, c in CLAIMED.items() if 'schedex' in c['engine']],
                 kind_free_text='hand-written stateless model checker for Python threads: controlled scheduler '
                                '(sys.monitoring line points + simulated blocking primitives, virtual time), depth-first '
                                'enumeration of all schedules within a delay bound, 16 worker processes'),
        ],
        checks=checks,
        notes='Known, recorded defects are listed in known_findings.json; see DESIGN.md.',
        not_applicable=[dict(property_id=p, reason=PENDING_REASON) for p in ALL if p not in CLAIMED],
    )
    with open(os.path.join(HERE, 'MANIFEST.json'), 'w') as f:
        json.dump(man, f, indent=1)
    try:
        import jsonschema
        jsonschema.validate(man, json.load(open('/root/.vp/MANIFEST.schema.json')))
        print('MANIFEST.json valid;', len(checks), 'checks claimed')
    except ImportError:
        print('MANIFEST.json written (jsonschema not available here)')


if __name__ == '__main__':
    main()
