#!/venv/bin/python
"""Apply a textual mutation to a scratch copy of /repo/src and run checks against it (nothing in /repo or in
/verif/evidence is touched).

    tools/mutant.py <relative file under src/mpservice> <old> <new> <CHECK> [<CHECK> ...] [--tier quick]
    tools/mutant.py --patch <diff file> <CHECK> ...
"""
import os
import shutil
import subprocess
import sys
import tempfile

VERIF = os.path.dirname(os.path.dirname(os.path.abspath(__file__)))


def main():
    args = sys.argv[1:]
    tier = 'quick'
    if '--tier' in args:
        i = args.index('--tier')
        tier = args[i + 1]
        del args[i:i + 2]
    scratch = tempfile.mkdtemp(prefix='mut_', dir='/tmp')
    try:
        shutil.copytree('/repo/src', os.path.join(scratch, 'src'))
        if args[0] == '--patch':
            patch = os.path.abspath(args[1])
            checks = args[2:]
            subprocess.run(['patch', '-p1', '-s', '-i', patch], cwd=scratch, check=True)
        else:
            rel, old, new = args[:3]
            checks = args[3:]
            p = os.path.join(scratch, 'src', 'mpservice', rel)
            s = open(p).read()
            if s.count(old) != 1:
                print(f'mutation site occurs {s.count(old)} times in {rel}', file=sys.stderr)
                return 3
            open(p, 'w').write(s.replace(old, new))
        env = dict(os.environ, VERIF_REPO=scratch, VERIF_EVIDENCE_DIR=os.path.join(scratch, 'evidence'),
                   VERIF_REPLAY_DIR=os.path.join(scratch, 'replays'))
        rc = 0
        for c in checks:
            r = subprocess.run([os.path.join(VERIF, 'bin', 'check'), c, '--tier', tier], env=env, capture_output=True, text=True)
            lines = [l for l in r.stdout.splitlines() if l.startswith(('VIOLATION', 'KNOWN', 'ENGINE', c + ' '))
                     or l.startswith('  harness=') or l.startswith('  ') and 'expected' in l]
            print(f'--- {c}: exit {r.returncode}')
            for l in lines[:8]:
                print('   ', l[:300])
            if r.returncode == 2:
                print(r.stderr[-1500:])
            rc = max(rc, r.returncode)
        return rc
    finally:
        shutil.rmtree(scratch, ignore_errors=True)


if __name__ == '__main__':
    sys.exit(main())
