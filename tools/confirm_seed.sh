#!/bin/sh
# tools/confirm_seed.sh <PROP> <k> <check ids (comma separated)> <test files...>
# Confirms a seeded change delivered by a sub-agent in /tmp/wt_<PROP>: applies it there, runs the given test files and the
# demonstration (must fail), reverts, runs the demonstration again (must pass); copies it to /verif/seeded/<PROP>_<k>/ and
# runs the given checks against it (scratch copy, nothing in /repo is touched).
P=$1; K=$2; CHECKS=$3; shift 3
WT=${WTROOT:-/tmp/wt_}$P
KO=${KOUT:-$K}   # file it under this index (later waves: KOUT=3, 4, ...)
OUT=/verif/seeded/${P}_$KO
mkdir -p $OUT
cd $WT || exit 2
git checkout -q -- . 
git apply --check seed_$K.diff || { echo "patch does not apply"; exit 2; }
git apply seed_$K.diff
TESTS_RESULT=$(PYTHONPATH=$WT/src timeout 1500 /venv/bin/python -m pytest -q -p no:cacheprovider --timeout=300 "$@" 2>&1 | grep -E " passed| failed| error" | grep "=====" | tail -1)
PYTHONPATH=$WT/src timeout 180 /venv/bin/python demo_$K.py > $OUT/demo_with.log 2>&1; WITH=$?
git checkout -q -- .
PYTHONPATH=$WT/src timeout 180 /venv/bin/python demo_$K.py > $OUT/demo_without.log 2>&1; WITHOUT=$?
cp seed_$K.diff $OUT/patch.diff; cp demo_$K.py $OUT/demo.py; cp meta_$K.json $OUT/agent_meta.json
CHECK_OUT=""
for c in $(echo $CHECKS | tr ',' ' '); do
  R=$(/verif/tools/mutant.py --patch $OUT/patch.diff $c 2>&1 | grep -E "^--- |VIOLATION|signature=" | head -4 | cut -c1-300)
  CHECK_OUT="$CHECK_OUT
$R"
done
/venv/bin/python - "$P" "$KO" "$TESTS_RESULT" "$WITH" "$WITHOUT" "$CHECK_OUT" "$*" <<'PY'
import json, sys
P, K, tests, w, wo, checks, files = sys.argv[1:8]
out = f'/verif/seeded/{P}_{K}'
am = json.load(open(out + '/agent_meta.json'))
caught = [l.split()[1].rstrip(':') for l in checks.splitlines() if l.startswith('--- ') and 'exit 1' in l]
missed = [l.split()[1].rstrip(':') for l in checks.splitlines() if l.startswith('--- ') and 'exit 0' in l]
meta = dict(property=P, seed=int(K), summary=am.get('summary'), breaks_how=am.get('breaks_how'),
            needs_to_manifest=am.get('needs_to_manifest'), files_changed=am.get('files_changed'),
            confirmed=dict(tests_run=files, tests_result=tests, demo_exit_with_change=int(w), demo_exit_without_change=int(wo)),
            checks_run=dict(caught_by=caught, missed_by=missed, output=checks.strip().splitlines()))
json.dump(meta, open(out + '/meta.json', 'w'), indent=1)
print(P, K, 'tests:', tests, '| demo with/without:', w, wo, '| caught by', caught, 'missed by', missed)
PY
