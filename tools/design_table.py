#!/venv/bin/python
"""Prints the numbers of DESIGN.md 0.3 from evidence/*.json (what each quick check explored)."""
import json
import os

VERIF = os.path.dirname(os.path.dirname(os.path.abspath(__file__)))
for i in range(1, 21):
    p = os.path.join(VERIF, 'evidence', f'C{i:02d}.json')
    if not os.path.exists(p):
        continue
    d = json.load(open(p))
    c = d['coverage']
    hs = sorted({x['harness'] for x in c['per_configuration']})
    ex = c.get('evaluations') or c.get('transitions')
    print(f"| C{i:02d} | {', '.join(hs)} | {ex} executions, {c['configurations']} cfgs, {c['distinct_outcomes']} outcomes, "
          f"{c['traces_validated_against_impl']} re-validated | {d['wall_s']:.0f} s | exhaustive={c['exhaustive']} |")
