#!/venv/bin/python
"""Regenerates the table of DESIGN.md 0.3 (between the markers <!-- T03:begin --> and <!-- T03:end -->) from evidence/*.json."""
import json
import os
import re

VERIF = os.path.dirname(os.path.dirname(os.path.abspath(__file__)))
DESC = {
    'C01': 'fifo_env (environment resolves the futures in every order; slow-source configurations with timer deviations; one d=2 core), parmap_pool (real ThreadPoolExecutor, gated calls) + real-process twin (executor=process, 54 settings)',
    'C02': 'answers (single / sequential / ensemble / switch / batching / stream / preprocess / saturated), ids (model id allocator), async_answers (AsyncServer), proc_answers (process servlets behind simproc)',
    'C03': 'pipelines (all programs <= 3 over 35 operator instances x 8 inputs incl. None and opaque elements x 3 modes), incremental, threaded_ops (slow sources)',
    'C04': 'faults (fault site x failing subset x fail_fast x batching), pfaults (process servlets)',
    'C05': 'buffer, parmap (incl. the thread/loop hybrids), async_adapters (SyncIter / AsyncBuffer / AsyncIter), fifo_stop + real-process twin (early stop / failure with executor=process)',
    'C06': 'overshoot, deadlines (incl. slow-worker configurations), deadline_races (timers=all), async_overshoot; backlog invariant at every point',
    'C07': 'timeout_race (timers=all; also saturated), stream_drop, async_abandon (AsyncServer)',
    'C08': 'fifo_env, parmap_pool (incl. a second round after an early stop), buffer; invariants at every point; the maxima reach the bounds',
    'C09': 'worker (batching, competing workers, in-worker pool, end marker after an environment-chosen pause), collector_full',
    'C10': 'tee (2-3 forks, window 2-3, lengths 0/1/3/5, failure positions)',
    'C11': 'startup (incl. 3 workers), cycles (incl. abandoned stream closed after exit, batching worker with requests in flight), acycles (AsyncServer), pstartup, pcycles (simproc; two competing workers per stage)',
    'C12': 'thread, process (simproc; kill at every child point; terminate(); refused restart) + 5 real twins',
    'C13': 'histories (BFS on real processes: list / MemoryBlock / managed() value / list whose container lives in a second manager; 12 operations), server_races (real Server object under the thread scheduler)',
    'C14': 'sequences on real processes (depth 2-3 x issuer vectors; 32 list ops, 21 dict ops, ...), scenarios (custom authkey, managed() in a constructor)',
    'C15': 'hops (9 classes x 3 depths x <= 3 hops x modes x 7 nestings) + 9 real-process cases',
    'C16': 'afifo (every duration vector, n <= 4, both async variants), aserver, hybrids, opaque (adapters carry opaque elements)',
    'C17': 'iq, iq_eager (consumers racing renew), iq_seq (every legal op sequence vs reference), iq_mp (simulated mp token queues), responsive, responsive2',
    'C18': 'framing (all chunkings <= 3 x gaps), server (all duration vectors), client (schedex, ids, timeouts), pipe_histories (every history <= 7 ops on real FIFOs) + 798 FIFO payload sequences + 48 real-socket requests',
    'C19': 'eager_batcher (every gap vector for 0-5 items; None items; custom end markers)',
    'C20': 'logging (simproc: N x pipe capacity x ending; slow handler; 1500-record burst; silent child with timer deviations) + 3 real twins',
}


def table():
    rows = ['| id | harnesses | explored by the quick tier | wall | exhaustive within bounds |', '|---|---|---|---|---|']
    for i in range(1, 21):
        pid = f'C{i:02d}'
        p = os.path.join(VERIF, 'evidence', f'{pid}.json')
        if not os.path.exists(p):
            continue
        d = json.load(open(p))
        c = d['coverage']
        ex = c.get('evaluations') or c.get('transitions')
        rows.append(f"| {pid} | {DESC[pid]} | {ex} executions, {c['configurations']} configurations, {c['distinct_outcomes']} distinct outcomes, "
                    f"{c['traces_validated_against_impl']} re-validated | {d['wall_s']:.0f} s | {'yes' if c['exhaustive'] else 'capped'} |")
    return '\n'.join(rows)


def main():
    t = table()
    p = os.path.join(VERIF, 'DESIGN.md')
    s = open(p).read()
    m = re.search(r'<!-- T03:begin -->.*?<!-- T03:end -->', s, re.S)
    if m:
        s = s[:m.start()] + '<!-- T03:begin -->\n' + t + '\n<!-- T03:end -->' + s[m.end():]
        open(p, 'w').write(s)
        print('DESIGN.md 0.3 table regenerated')
    else:
        print(t)


if __name__ == '__main__':
    main()
