#!/venv/bin/python
"""Writes seeded/SUMMARY.md from the meta.json files."""
import json
import os

VERIF = os.path.dirname(os.path.dirname(os.path.abspath(__file__)))
rows = []
for sid in sorted(os.listdir(os.path.join(VERIF, 'seeded'))):
    mp = os.path.join(VERIF, 'seeded', sid, 'meta.json')
    if not os.path.exists(mp):
        continue
    m = json.load(open(mp))
    fin = m.get('final', {})
    caught = [k for k, v in fin.items() if v.get('exit') == 1]
    silent = [k for k, v in fin.items() if v.get('exit') == 0]
    conf = m.get('confirmed', {})
    rows.append((sid, (m.get('summary') or '').replace('\n', ' ')[:230], (m.get('needs_to_manifest') or '').replace('\n', ' ')[:200],
                 conf.get('tests_result', '').strip('= ')[:60], f"{conf.get('demo_exit_with_change')}/{conf.get('demo_exit_without_change')}",
                 ', '.join(caught) or '-', ', '.join(silent) or '-', m.get('note', '')))
with open(os.path.join(VERIF, 'seeded', 'SUMMARY.md'), 'w') as f:
    f.write('# Seeded property-breaking changes\n\n'
            'Produced by sub-agents that saw only the property text and their own worktree; confirmed by tools/confirm_seed.sh; '
            'verdicts by tools/rerun_seeds.py (quick tier, change applied to a scratch copy of /repo/src).\n\n'
            '| seed | change | needs | tests with change | demo exit with/without | quick checks reporting VIOLATION | checks run and silent | note |\n'
            '|---|---|---|---|---|---|---|---|\n')
    for r in rows:
        f.write('| ' + ' | '.join(str(x).replace('|', '/') for x in r) + ' |\n')
    n = len(rows)
    c = sum(1 for r in rows if r[5] != '-')
    z = sum(1 for r in rows if r[5] == '-' and 'no longer a defect' in r[7])
    f.write(f'\n{c} of {n} seeded changes are reported by at least one quick check on the final tree; {z} further one(s) no longer break '
            'the property there (see note).\n')
print(len(rows), 'seeds summarised')
