#!/venv/bin/python
"""Re-runs the quick checks named in each seeded/<id>/meta.json against that seeded change and records the final result
(which checks report a VIOLATION) in meta.json -> 'final'.   tools/rerun_seeds.py [id ...]"""
import json
import os
import subprocess
import sys

VERIF = os.path.dirname(os.path.dirname(os.path.abspath(__file__)))
ids = sys.argv[1:] or sorted(os.listdir(os.path.join(VERIF, 'seeded')))
for sid in ids:
    d = os.path.join(VERIF, 'seeded', sid)
    mp = os.path.join(d, 'meta.json')
    if not os.path.exists(mp):
        continue
    meta = json.load(open(mp))
    prop = meta['property']
    checks = meta.get('checks_to_run') or sorted(set([prop] + meta.get('checks_run', {}).get('caught_by', [])))
    final = {}
    for c in checks:
        r = subprocess.run([os.path.join(VERIF, 'tools', 'mutant.py'), '--patch', os.path.join(d, 'patch.diff'), c],
                           capture_output=True, text=True)
        sigs = [l.strip()[:400] for l in r.stdout.splitlines() if 'signature=' in l][:2]
        final[c] = dict(exit=r.returncode, verdict='VIOLATION' if r.returncode == 1 else ('silent' if r.returncode == 0 else 'error'),
                        first_signatures=sigs)
    meta['final'] = final
    meta['caught'] = any(v['exit'] == 1 for k, v in final.items())
    meta['caught_by_own_property_check'] = final.get(prop, {}).get('exit') == 1
    json.dump(meta, open(mp, 'w'), indent=1)
    print(sid, {k: v['verdict'] for k, v in final.items()})
