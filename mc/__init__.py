"""Model-checking machinery for zpz/mpservice (see /verif/DESIGN.md).

mc.sched    controlled scheduler for real Python threads + simulated primitives
mc.explore  stateless deviation-bounded DFS over schedules, worker pool, replay
mc.vloop    virtual asyncio event loop on the scheduler's clock
mc.simproc  simulated process boundary (pipes, mp queues, Popen)
mc.report   evidence files, known findings, VIOLATION lines
"""
