"""Virtual asyncio event loop.

``SimLoop`` is a ``BaseEventLoop`` without a selector: its clock is the scheduler's virtual clock and the
place where a real loop would sleep in ``select()`` is a blocking operation of the scheduler (woken by
``call_soon_threadsafe`` from another simulated thread, or by its own earliest timer).  Outside an
exploration (``sched.S() is None``) the same class runs stand-alone on a private virtual clock, which is
what the single-threaded completion-order enumerations use.
"""
from __future__ import annotations

import asyncio
from asyncio import base_events, events

from . import sched as _sched


class Idle(Exception):
    """Stand-alone mode: the loop has nothing to do and nothing scheduled - it would sleep forever."""


class _Sel:
    def __init__(self, loop):
        self.loop = loop

    def select(self, timeout=None):
        loop = self.loop
        s = _sched.CUR[0]
        me = s.by_ident.get(_sched._get_ident()) if s is not None else None
        if me is None:
            # stand-alone virtual time
            if loop._woken:
                loop._woken = False
                return []
            if timeout is None:
                raise Idle('virtual loop idle forever')
            if timeout > 0:
                loop._vt += timeout
            return []
        if s.aborting or me.dead:
            raise _sched.Abort()
        if loop._woken:
            loop._woken = False
            return []
        if timeout is not None and timeout <= 0:
            return []
        s.block(loop._is_woken, timeout, on='loop.select')
        loop._woken = False
        return []

    def close(self):
        pass

    def get_map(self):
        return {}


class SimLoop(base_events.BaseEventLoop):
    def __init__(self):
        super().__init__()
        self._vt = 0.0
        self._woken = False
        self._selector = _Sel(self)
        self._clock_resolution = 1e-9

    def _is_woken(self):
        return self._woken

    def time(self):
        s = _sched.CUR[0]
        if s is not None and _sched._get_ident() in s.by_ident:
            return s.now
        return self._vt

    def _process_events(self, event_list):
        pass

    def _write_to_self(self):
        self._woken = True

    def close(self):
        if self.is_running():
            raise RuntimeError('Cannot close a running event loop')
        if self.is_closed():
            return
        super().close()


class SimPolicy(asyncio.DefaultEventLoopPolicy):
    def new_event_loop(self):
        return SimLoop()


_installed = [False]


def install():
    if _installed[0]:
        return
    _installed[0] = True
    asyncio.set_event_loop_policy(SimPolicy())


def run(coro):
    """asyncio.run on a fresh stand-alone virtual loop."""
    return asyncio.run(coro, loop_factory=SimLoop)
