"""schedex core: a controlled scheduler for real Python threads.

Exactly one simulated thread runs at any time (it "holds the baton").  A thread
hands the baton back only at a *scheduling point*:

  * a LINE event of a traced code object (sys.monitoring local events),
  * a blocking operation of a simulated primitive,
  * thread exit,
  * an explicit ``choose(n)`` (environment nondeterminism; no thread switch).

At every scheduling point the scheduler computes the ordered list of
alternatives (runnable threads in round-robin order starting at the running
thread, then pending timeouts) and takes ``prefix[i]`` if the prefix is that
long, else alternative 0.  The explorer (mc.explore) enumerates prefixes.

Everything here is deterministic given the prefix; see DESIGN.md 3.6 for the
discipline this relies on.
"""
from __future__ import annotations

import _thread
import collections
import gc
import queue as _queue
import sys
import threading
import time as _time_mod
import types

# ---------------------------------------------------------------- real things
REAL = types.SimpleNamespace(
    allocate_lock=_thread.allocate_lock,
    start_new_thread=_thread.start_new_thread,
    get_ident=_thread.get_ident,
    Lock=threading.Lock,
    RLock=threading.RLock,
    Condition=threading.Condition,
    SimpleQueue=_queue.SimpleQueue,
    thread_start=threading.Thread.start,
    thread_join=threading.Thread.join,
    thread_is_alive=threading.Thread.is_alive,
    sleep=_time_mod.sleep,
    perf_counter=_time_mod.perf_counter,
    monotonic=_time_mod.monotonic,
    time=_time_mod.time,
    threading_time=threading._time,
    queue_time=_queue.time,
)
_get_ident = _thread.get_ident

RUNNABLE, BLOCKED, FINISHED = 'R', 'B', 'F'


class Abort(BaseException):
    """Raised inside simulated threads to unwind them at the end of an execution."""


class EngineError(Exception):
    """The machinery itself failed (never reported as a property violation)."""


def _unraisable(u):
    e = u.exc_value
    if isinstance(e, Abort) or isinstance(getattr(e, '__cause__', None), Abort) \
            or isinstance(getattr(e, '__context__', None), Abort):
        return
    if CUR[0] is not None or QUIET[0]:
        return
    sys.__unraisablehook__(u)


QUIET = [False]
CUR = [None]  # the active Sched, if any


def S():
    return CUR[0]


class SimThread:
    __slots__ = ('sched', 'idx', 'name', 'state', 'baton', 'can_run', 'deadline', 'wake_reason',
                 'blocked_on', 'exited', 'daemon', 'ptag', 'pyobj', 'ident', 'is_body', 'dead')

    def __init__(self, sched, idx, name, daemon, ptag):
        self.sched = sched
        self.idx = idx
        self.name = name
        self.state = RUNNABLE
        self.baton = REAL.allocate_lock()
        self.baton.acquire()
        self.can_run = None
        self.deadline = None
        self.wake_reason = None
        self.blocked_on = None
        self.exited = REAL.allocate_lock()
        self.exited.acquire()
        self.daemon = daemon
        self.ptag = ptag
        self.pyobj = None
        self.ident = None
        self.is_body = False
        self.dead = False  # killed by a simulated crash

    def __repr__(self):
        return f'T{self.idx}:{self.name}:{self.state}'


class Sched:
    def __init__(self, prefix=(), *, max_points=4000, max_timer_fires=300, timers='free',
                 record=False, monitor=None, cond_timeout_window=False, timer_window=None):
        self.threads: list[SimThread] = []
        self.by_ident = {}
        self.cur: SimThread | None = None
        self.prefix = list(prefix)
        self.choices: list[int] = []
        # per point: ('s', n_alternatives) or ('c', n_alternatives)
        self.points: list[tuple] = []
        self.now = 0.0
        self.max_points = max_points
        self.max_timer_fires = max_timer_fires
        self.timer_fires = 0
        self.timers = timers
        self.timer_window = timer_window
        self.error = None
        self.aborting = False
        self.finished_ok = False
        self.done = REAL.allocate_lock()
        self.done.acquire()
        self.record = record
        self.trace = []
        self.monitor = monitor
        self.thread_excs = []
        self.cond_timeout_window = cond_timeout_window
        self.switches = 0
        self.local = {}  # per-execution scratch for harness / simproc layers
        self.exit_hooks = []
        # crash points (simproc): crashable(ptag) -> signal number or None; every scheduling point of such a
        # process gets an extra free choice "the process is killed here"
        self.crashable = None
        self.crash_fn = None
        self.crashes_left = 0

    # ------------------------------------------------------------ threads
    def me(self) -> SimThread | None:
        return self.by_ident.get(_get_ident())

    def new_thread(self, name, daemon=False, ptag=None):
        if ptag is None:
            me = self.me()
            ptag = me.ptag if me is not None else 'main'
        t = SimThread(self, len(self.threads), name, daemon, ptag)
        self.threads.append(t)
        return t

    def _alternatives(self):
        cur = self.cur
        normal = []
        touts = []
        for t in self.threads:
            st = t.state
            if st == RUNNABLE:
                normal.append(t)
            elif st == BLOCKED:
                if t.can_run():
                    normal.append(t)
                elif t.deadline is not None:
                    touts.append(t)
        if len(normal) > 1:
            ci = cur.idx if cur is not None else 0
            n = len(self.threads)
            normal.sort(key=lambda a: (a.idx - ci) % n)
        alts = [(t, 'run') for t in normal]
        if touts:
            touts.sort(key=lambda a: (a.deadline, a.idx))
            if self.timers == 'all' and normal:
                # "the others were slow": a deadline expires although threads could still run (one deviation);
                # slowness is bounded by timer_window virtual seconds, so that 'unbounded' deadlines stay unbounded
                w = self.timer_window
                alts.extend((t, 'timeout') for t in touts if w is None or t.deadline - self.now <= w)
            elif not normal:
                d0 = touts[0].deadline
                alts.extend((t, 'timeout') for t in touts if t.deadline == d0)
        return alts

    def point(self, kind='point', info=None):
        """Scheduling point at which the calling thread stays runnable."""
        if self.aborting:
            raise Abort()
        self._decide(kind, info)

    def block(self, can_run, timeout=None, on=None):
        """Block the calling thread until can_run() holds (returns 'ok') or the
        timeout fires (returns 'timeout')."""
        if self.aborting:
            raise Abort()
        if timeout is not None and timeout <= 0:
            # a zero timeout never waits: decide on the spot (no scheduling point).  The clock moves by a hair so that
            # polling loops of the form `while deadline - now() >= 0: wait(deadline - now())` terminate as they do in
            # real time.
            if can_run():
                return 'ok'
            self.now += 1e-12
            return 'timeout'
        me = self.cur
        me.state = BLOCKED
        me.can_run = can_run
        me.blocked_on = on
        me.deadline = None if timeout is None else self.now + max(0.0, timeout)
        me.wake_reason = None
        self._decide('block', on)
        r = me.wake_reason
        me.deadline = None
        me.blocked_on = None
        return r

    def choose(self, n, label=None, costly=False):
        """Environment choice among n alternatives: enumerated by the explorer at no cost
        (costly=True: alternative 0 is the default and any other one counts as a deviation)."""
        if self.aborting:
            raise Abort()
        if n <= 1:
            return 0
        i = len(self.choices)
        if i < len(self.prefix):
            c = self.prefix[i]
            if c >= n:
                self._fail(('replay-divergence', f'choose point {i}: choice {c} of {n}'))
        else:
            c = 0
        self.choices.append(c)
        self.points.append(('k' if costly else 'c', n))
        if self.record:
            self.trace.append((base_name(self.cur.name) if self.cur else '?', 'choose', label, c))
        return c

    def _decide(self, kind, info):
        me = self.cur
        if self.crashes_left > 0 and me is not None and not me.dead and me.state != FINISHED and kind != 'exit':
            sig = self.crashable(me.ptag)
            if sig and self.choose(2, 'crash') == 1:
                self.crashes_left -= 1
                self.crash_fn(self, me.ptag, sig)
                # the calling thread belongs to the victim: it unwinds completely (still holding the baton, so that
                # nothing else runs meanwhile) and hands over from its trampoline
                raise Abort()
        if self.monitor is not None:
            msg = self.monitor(self)
            if msg:
                self._fail(('invariant', msg))
        alts = self._alternatives()
        if not alts:
            self._fail(('deadlock', None))
        i = len(self.choices)
        if i >= self.max_points:
            self._fail(('horizon', f'more than {self.max_points} scheduling points'))
        if i < len(self.prefix):
            c = self.prefix[i]
            if c >= len(alts):
                self._fail(('replay-divergence', f'point {i}: choice {c} of {len(alts)}'))
        else:
            c = 0
        self.choices.append(c)
        self.points.append(('s', len(alts)))
        t, how = alts[c]
        if self.record:
            self.trace.append((f'T{me.idx}:{base_name(me.name)}' if me else '?', kind, _fmt(info), f'->T{t.idx}:{base_name(t.name)}' + ('(timeout)' if how == 'timeout' else '')))
            if self.record == 'alts':
                self.trace[-1] = self.trace[-1] + (tuple(f'T{a.idx}:{h}' for a, h in alts),)
        if how == 'timeout':
            if t.deadline > self.now:
                self.now = t.deadline
            t.wake_reason = 'timeout'
            self.timer_fires += 1
            if self.timer_fires > self.max_timer_fires:
                self._fail(('horizon', f'more than {self.max_timer_fires} timer firings'))
        elif t.state == BLOCKED:
            t.wake_reason = 'ok'
        t.state = RUNNABLE
        t.can_run = None
        if t is not me:
            self.switches += 1
        self._switch_to(t)
        if me is not None and me.dead and self.me() is me:
            raise Abort()

    def _switch_to(self, t):
        me = self.me()
        self.cur = t
        if t is me:
            return
        t.baton.release()
        if me is not None and me.state != FINISHED:
            me.baton.acquire()
            if self.aborting or me.dead:
                raise Abort()

    def _fail(self, error):
        if self.error is None:
            self.error = error
            if error[0] in ('deadlock', 'horizon'):
                self.stuck = self._describe_stuck()
        self._abort_all()

    def _abort_all(self):
        self.aborting = True
        me = self.me()
        for t in self.threads:
            if t is not me and t.state != FINISHED:
                t.state = FINISHED
                try:
                    t.baton.release()
                except RuntimeError:
                    pass
        try:
            self.done.release()
        except RuntimeError:
            pass
        raise Abort()

    def thread_exit(self):
        me = self.me()
        me.state = FINISHED
        if self.aborting:
            return
        # termination rule: body and every non-daemon thread finished
        if all(t.state == FINISHED or t.daemon for t in self.threads):
            self.finished_ok = True
            self.leftover = [t.name for t in self.threads if t.state != FINISHED]
            try:
                self._abort_all()
            except Abort:
                pass
            return
        try:
            self._decide('exit', None)
        except Abort:
            pass

    def kill_process(self, ptag):
        """Simulated crash: every thread of process `ptag` stops where it is."""
        me = self.me()
        for t in self.threads:
            if t.ptag == ptag and t.state != FINISHED and t is not me:
                t.dead = True
                t.state = FINISHED
                t.baton.release()
                t.exited.acquire()   # unwound completely before anyone else moves on
                t.exited.release()

    # ------------------------------------------------------------ diagnostics
    def _describe_stuck(self):
        frames = sys._current_frames()
        out = []
        for t in self.threads:
            if t.state == FINISHED:
                continue
            fr = frames.get(t.ident)
            where = _lib_location(fr)
            out.append((base_name(t.name), t.state, _fmt(t.blocked_on), where))
        return out


def base_name(name):
    """Thread name without counters, so signatures are stable."""
    import re
    return re.sub(r'[-_ ]?\(?\d+\)?', '', name)


def _fmt(x):
    if x is None:
        return ''
    if isinstance(x, str):
        return x
    if isinstance(x, tuple):
        return ':'.join(_fmt(v) for v in x)
    if isinstance(x, (int, float)):
        return str(x)
    return type(x).__name__


LIB_MARKERS = ['/mpservice/']
HARNESS_MARKERS = ['/verif/checks/']


def _lib_location(fr, depth=3):
    """Innermost library functions (no line numbers) on the stack of a stuck thread."""
    names = []
    while fr is not None and len(names) < depth:
        fn = fr.f_code.co_filename
        if any(m in fn for m in LIB_MARKERS):
            names.append(fr.f_code.co_qualname)
        fr = fr.f_back
    return '<'.join(names) if names else '?'


# ---------------------------------------------------------------- line points
_TOOL = 3
_traced_codes = set()
_monitoring_ready = [False]


def _on_line(code, line):
    s = CUR[0]
    if s is None:
        return
    t = s.by_ident.get(_get_ident())
    if t is None:
        return
    if s.aborting or t.dead:
        raise Abort()
    if t is s.cur:
        s._decide('line', (code.co_name, line))


def trace_codes(codes):
    """Make every line of the given code objects a scheduling point (idempotent)."""
    mon = sys.monitoring
    if not _monitoring_ready[0]:
        mon.use_tool_id(_TOOL, 'mc-schedex')
        mon.register_callback(_TOOL, mon.events.LINE, _on_line)
        _monitoring_ready[0] = True
    for c in codes:
        if c not in _traced_codes:
            mon.set_local_events(_TOOL, c, mon.events.LINE)
            _traced_codes.add(c)


def set_traced(codes):
    """Make exactly these code objects traced (the set of scheduling points must not depend on what else this worker
    process has run before)."""
    want = set(codes)
    if want == _traced_codes:
        return
    mon = sys.monitoring
    for c in list(_traced_codes - want):
        mon.set_local_events(_TOOL, c, 0)
        _traced_codes.discard(c)
    trace_codes(want - _traced_codes)


def untrace_all():
    mon = sys.monitoring
    for c in list(_traced_codes):
        mon.set_local_events(_TOOL, c, 0)
    _traced_codes.clear()


def code_of(func, *inner):
    """Code object of func, or of a function nested in it (by name path)."""
    c = getattr(func, '__code__', None)
    if c is None:
        c = func.__func__.__code__ if hasattr(func, '__func__') else func
    for name in inner:
        for k in c.co_consts:
            if isinstance(k, types.CodeType) and k.co_name == name:
                c = k
                break
        else:
            raise EngineError(f'no nested function {name!r} in {c.co_name}')
    return c


def all_codes(func):
    """Code object of func and of everything nested in it."""
    out = []
    todo = [code_of(func)]
    while todo:
        c = todo.pop()
        out.append(c)
        todo.extend(k for k in c.co_consts if isinstance(k, types.CodeType))
    return out


# ---------------------------------------------------------------- primitives
def _ctx():
    """(sched, simthread) if the caller is a live simulated thread, else (None, None)."""
    s = CUR[0]
    if s is None:
        return None, None
    t = s.by_ident.get(_get_ident())
    if t is None:
        return None, None
    if s.aborting or t.dead:
        raise Abort()
    return s, t


class SimLock:
    _kind = 'Lock'

    def __init__(self):
        self._s = CUR[0]
        self.owner = None

    def acquire(self, blocking=True, timeout=-1):
        s, me = _ctx()
        if s is None or s is not self._s:
            if self.owner is not None and s is None and self._s is None:
                # outside any exploration: behave like an uncontended lock
                pass
            self.owner = me or 'outside'
            return True
        while self.owner is not None:
            if not blocking:
                return False
            r = s.block(self._free, None if timeout is None or timeout < 0 else timeout, on=self._kind)
            if r == 'timeout':
                return False
        self.owner = me
        return True

    def _free(self):
        return self.owner is None

    def release(self):
        if self.owner is None:
            s, me = _ctx()
            if s is not None and s is self._s:
                raise RuntimeError('release unlocked lock')
        self.owner = None

    def locked(self):
        return self.owner is not None

    def __enter__(self):
        return self.acquire()

    def __exit__(self, *a):
        self.release()

    def _is_owned(self):
        # same test as threading.Condition._is_owned for a plain lock
        if self.acquire(False):
            self.release()
            return False
        return True

    def _at_fork_reinit(self):
        self.owner = None


class SimRLock:
    _kind = 'RLock'

    def __init__(self):
        self._s = CUR[0]
        self.owner = None
        self.count = 0

    def acquire(self, blocking=True, timeout=-1):
        s, me = _ctx()
        if s is None or s is not self._s:
            self.owner = me or 'outside'
            self.count += 1
            return True
        if self.owner is me:
            self.count += 1
            return True
        while self.owner is not None:
            if not blocking:
                return False
            r = s.block(self._free, None if timeout is None or timeout < 0 else timeout, on=self._kind)
            if r == 'timeout':
                return False
        self.owner = me
        self.count = 1
        return True

    def _free(self):
        return self.owner is None

    def release(self):
        s, me = _ctx()
        if s is not None and s is self._s and self.owner is not me:
            raise RuntimeError('cannot release un-acquired lock')
        self.count -= 1
        if self.count <= 0:
            self.count = 0
            self.owner = None

    def locked(self):
        return self.owner is not None

    def __enter__(self):
        return self.acquire()

    def __exit__(self, *a):
        self.release()

    def _is_owned(self):
        s, me = _ctx()
        if s is None or s is not self._s:
            return self.owner is not None
        return self.owner is me

    def _release_save(self):
        st = (self.owner, self.count)
        self.owner = None
        self.count = 0
        return st

    def _acquire_restore(self, st):
        s, me = _ctx()
        if s is not None and s is self._s:
            while self.owner is not None:
                s.block(self._free, None, on=self._kind)
        self.owner, self.count = st

    def _at_fork_reinit(self):
        self.owner = None
        self.count = 0


def SimRLockFactory(*a, **k):
    return SimRLock()


class SimCondition:
    def __init__(self, lock=None):
        self._s = CUR[0]
        if lock is None:
            lock = SimRLock()
        self._lock = lock
        self.acquire = lock.acquire
        self.release = lock.release
        self._waiters = collections.deque()

    def __enter__(self):
        return self._lock.__enter__()

    def __exit__(self, *a):
        return self._lock.__exit__(*a)

    def _is_owned(self):
        return self._lock._is_owned()

    def wait(self, timeout=None):
        s, me = _ctx()
        if s is None or s is not self._s:
            return True
        if not self._lock._is_owned():
            raise RuntimeError('cannot wait on un-acquired lock')
        tok = [False]
        self._waiters.append(tok)
        if isinstance(self._lock, SimRLock):
            st = self._lock._release_save()
        else:
            self._lock.release()
            st = None
        try:
            r = s.block(lambda: tok[0], timeout, on='Condition.wait')
            got = r != 'timeout'
            if not got:
                if s.cond_timeout_window:
                    # window between the timed-out low-level acquire and the removal of the waiter,
                    # during which a notify() is wasted on this waiter (as in threading.Condition)
                    s.point('cond-timeout-window')
                try:
                    self._waiters.remove(tok)
                except ValueError:
                    pass
        finally:
            if st is not None:
                self._lock._acquire_restore(st)
            else:
                self._lock.acquire()
        return got

    def wait_for(self, predicate, timeout=None):
        endtime = None
        waittime = timeout
        result = predicate()
        while not result:
            if waittime is not None:
                if endtime is None:
                    endtime = sim_now() + waittime
                else:
                    waittime = endtime - sim_now()
                    if waittime <= 0:
                        break
            self.wait(waittime)
            result = predicate()
        return result

    def notify(self, n=1):
        s, me = _ctx()
        if s is not None and s is self._s and not self._lock._is_owned():
            raise RuntimeError('cannot notify on un-acquired lock')
        while n > 0 and self._waiters:
            self._waiters.popleft()[0] = True
            n -= 1

    def notify_all(self):
        self.notify(len(self._waiters))

    def notifyAll(self):
        self.notify_all()


class SimSimpleQueue:
    """queue.SimpleQueue: unbounded, put never blocks; each operation is one atomic step."""

    def __init__(self):
        self._s = CUR[0]
        self._d = collections.deque()

    def put(self, item, block=True, timeout=None):
        s, me = _ctx()
        self._d.append(item)

    def put_nowait(self, item):
        self.put(item)

    def get(self, block=True, timeout=None):
        s, me = _ctx()
        if s is None or s is not self._s:
            if not self._d:
                raise _queue.Empty
            return self._d.popleft()
        if timeout is not None and timeout < 0:
            raise ValueError("'timeout' must be a non-negative number")
        while not self._d:
            if not block:
                raise _queue.Empty
            r = s.block(self._nonempty, timeout, on='SimpleQueue.get')
            if r == 'timeout':
                raise _queue.Empty
        return self._d.popleft()

    def _nonempty(self):
        return bool(self._d)

    def get_nowait(self):
        return self.get(False)

    def empty(self):
        return not self._d

    def qsize(self):
        return len(self._d)

    __class_getitem__ = classmethod(types.GenericAlias)


# ---------------------------------------------------------------- threads
def _sim_thread_start(self):
    s, me = _ctx()
    if s is None:
        return REAL.thread_start(self)
    if not self._initialized:
        raise RuntimeError('thread.__init__() not called')
    if self._started.is_set():
        raise RuntimeError('threads can only be started once')
    st = s.new_thread(self.name, daemon=self.daemon)
    st.pyobj = self
    self._sim = st
    self._started._flag = True
    launch(s, st, self.run, pyobj=self)
    # not a scheduling point: the new thread becomes eligible at the creator's next point


def launch(s, st, fn, pyobj=None):
    """Run fn() as simulated thread st (OS thread created here, parked until scheduled)."""
    ready = REAL.allocate_lock()
    ready.acquire()

    def tramp():
        ident = _get_ident()
        st.ident = ident
        s.by_ident[ident] = st
        if pyobj is not None:
            pyobj._ident = ident
            threading._active[ident] = pyobj
        ready.release()
        st.baton.acquire()
        try:
            if s.aborting or st.dead:
                return
            try:
                fn()
            except Abort:
                pass
            except BaseException as e:  # what threading.excepthook would report
                if not (s.aborting or st.dead):
                    s.thread_excs.append((base_name(st.name), type(e).__name__, str(e)[:200]))
        finally:
            if pyobj is not None:
                threading._active.pop(ident, None)
                pyobj._is_stopped = True
                pyobj._tstate_lock = None
            try:
                if st.dead and not (s.cur is st and not s.aborting):
                    st.state = FINISHED
                else:
                    s.thread_exit()     # (a crashed thread that held the baton hands over here)
            finally:
                s.by_ident.pop(ident, None)
                st.exited.release()

    REAL.start_new_thread(tramp, ())
    ready.acquire()   # the OS thread is registered before anyone can schedule it


def _sim_thread_join(self, timeout=None):
    s, me = _ctx()
    st = getattr(self, '_sim', None)
    if s is None or st is None or st.sched is not s:
        if st is not None:
            return  # thread of a finished execution
        return REAL.thread_join(self, timeout)
    if st is me:
        raise RuntimeError('cannot join current thread')
    if timeout is not None and timeout < 0:
        timeout = 0
    while st.state != FINISHED:
        r = s.block(lambda: st.state == FINISHED, timeout, on=('join', base_name(st.name)))
        if r == 'timeout':
            return


def _sim_thread_is_alive(self):
    st = getattr(self, '_sim', None)
    if st is None:
        return REAL.thread_is_alive(self)
    return st.state != FINISHED


# ---------------------------------------------------------------- time
def sim_now():
    s = CUR[0]
    if s is None or _get_ident() not in s.by_ident:
        return REAL.perf_counter()
    return s.now


def sim_monotonic():
    s = CUR[0]
    if s is None or _get_ident() not in s.by_ident:
        return REAL.monotonic()
    return s.now


def sim_time():
    s = CUR[0]
    if s is None or _get_ident() not in s.by_ident:
        return REAL.time()
    return 1_700_000_000.0 + s.now


def sim_sleep(secs):
    s, me = _ctx()
    if s is None:
        return REAL.sleep(secs)
    s.block(_never, secs, on='sleep')


def _never():
    return False


# ---------------------------------------------------------------- install
_installed = [False]
_rebound = []   # (module, name, original)


def _thread_hash(self):
    # set iteration order must not depend on memory addresses (ThreadPoolExecutor._threads is a set)
    h = self.__dict__.get('_mc_hash')
    if h is None:
        s = CUR[0]
        if s is None:
            return object.__hash__(self)
        h = s.local['thread_hash_seq'] = s.local.get('thread_hash_seq', 0) + 1
        self.__dict__['_mc_hash'] = h
    return h


def install(lib_prefixes=('mpservice',)):
    """Replace the blocking primitives process-wide.  Call after importing the library under test."""
    if _installed[0]:
        return
    _installed[0] = True
    sys.unraisablehook = _unraisable
    threading.Lock = SimLock
    threading.RLock = SimRLockFactory
    threading.Condition = SimCondition
    _queue.SimpleQueue = SimSimpleQueue
    threading.Thread.start = _sim_thread_start
    threading.Thread.join = _sim_thread_join
    threading.Thread.is_alive = _sim_thread_is_alive
    threading.Thread.__hash__ = _thread_hash
    _time_mod.sleep = sim_sleep
    _time_mod.perf_counter = sim_now
    _time_mod.monotonic = sim_monotonic
    _time_mod.time = sim_time
    threading._time = sim_monotonic
    _queue.time = sim_monotonic
    import concurrent.futures.thread as cft
    cft._global_shutdown_lock = SimLock()
    rebind(lib_prefixes)


_rederived = {}


def _rederive(cls):
    """Copy of a (small) class that subclasses the C type queue.SimpleQueue, on top of SimSimpleQueue."""
    new = _rederived.get(cls)
    if new is None:
        new = type(cls.__name__, (SimSimpleQueue,), {})
        for k, v in vars(cls).items():
            if k in ('__dict__', '__weakref__', '__module__', '__doc__'):
                continue
            if isinstance(v, types.FunctionType) and '__class__' in v.__code__.co_freevars:
                # zero-argument super(): give the copy its own __class__ cell
                cells = tuple(types.CellType(new) if name == '__class__' else cell
                              for name, cell in zip(v.__code__.co_freevars, v.__closure__))
                f = types.FunctionType(v.__code__, v.__globals__, v.__name__, v.__defaults__, cells)
                f.__kwdefaults__ = v.__kwdefaults__
                v = f
            setattr(new, k, v)
        new.__module__ = cls.__module__
        _rederived[cls] = new
    return new


def rebind(lib_prefixes):
    """Re-point names that library modules imported with ``from X import Y``."""
    idmap = {
        id(REAL.Lock): SimLock, id(REAL.RLock): SimRLockFactory, id(REAL.Condition): SimCondition,
        id(REAL.SimpleQueue): SimSimpleQueue, id(REAL.sleep): sim_sleep, id(REAL.perf_counter): sim_now,
        id(REAL.monotonic): sim_monotonic, id(REAL.time): sim_time,
    }
    real_lock_types = (type(REAL.allocate_lock()), type(REAL.RLock()))
    for mname, mod in list(sys.modules.items()):
        if mod is None or not any(mname == p or mname.startswith(p + '.') for p in lib_prefixes):
            continue
        for name, val in list(vars(mod).items()):
            new = idmap.get(id(val))
            if new is None and isinstance(val, type) and val is not REAL.SimpleQueue \
                    and issubclass(val, REAL.SimpleQueue):
                # e.g. class _SimpleThreadQueue(queue.SimpleQueue): re-derive on the simulated base
                new = _rederive(val)
            if new is None and isinstance(val, real_lock_types):
                new = SimLock() if isinstance(val, real_lock_types[0]) else SimRLock()
            if new is not None:
                _rebound.append((mod, name, val))
                setattr(mod, name, new)


# ---------------------------------------------------------------- one execution
class ExecResult:
    __slots__ = ('value', 'exc', 'error', 'stuck', 'choices', 'points', 'now', 'thread_excs',
                 'leftover', 'trace', 'switches', 'nthreads', 'local')

    def outcome_kind(self):
        if self.error is not None:
            return self.error[0]
        return 'exc' if self.exc is not None else 'ok'


def run_once(body, prefix=(), **opts) -> ExecResult:
    """Run body() as simulated thread 0 under the schedule `prefix`; return what happened."""
    if CUR[0] is not None:
        raise EngineError('nested exploration')
    s = Sched(prefix, **opts)
    main = s.new_thread('body', daemon=False, ptag='main')
    main.is_body = True
    box = {}
    mt = threading.Thread(name='body')
    mt._started._flag = True
    mt._sim = main
    main.pyobj = mt

    def fn():
        try:
            box['v'] = body()
        except Abort:
            raise
        except BaseException as e:
            box['e'] = e

    gcwas = gc.isenabled()
    gc.disable()
    CUR[0] = s
    try:
        launch(s, main, fn, pyobj=mt)
        s.cur = main
        main.baton.release()
        s.done.acquire()
        for t in list(s.threads):
            if not t.exited.acquire(timeout=20):
                raise EngineError(f'simulated thread {t.name} did not unwind')
    finally:
        CUR[0] = None
        if gcwas:
            gc.enable()
    for h in s.exit_hooks:
        h()
    # concurrent.futures.thread._threads_queues is a WeakKeyDictionary {worker Thread: work queue}; here the (simulated) work
    # queue refers to this Sched and hence to the Thread, so the entries would never go away (one leaked execution each)
    cft = sys.modules.get('concurrent.futures.thread')
    if cft is not None:
        for k in [k for k, q in list(cft._threads_queues.items()) if getattr(q, '_s', None) is s]:
            del cft._threads_queues[k]
    r = ExecResult()
    r.value = box.get('v')
    r.exc = box.get('e')
    r.error = s.error
    r.stuck = getattr(s, 'stuck', None)
    r.choices = s.choices
    r.points = s.points
    r.now = s.now
    r.thread_excs = s.thread_excs
    r.leftover = getattr(s, 'leftover', [])
    r.trace = s.trace
    r.switches = s.switches
    r.nthreads = len(s.threads)
    r.local = s.local
    return r
