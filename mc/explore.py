"""Stateless, deviation-bounded depth-first exploration of schedules, spread over worker processes.

A *harness* closes a piece of the real library into a small system:

    class MyHarness(Harness):
        name = 'buffer_break'
        def setup(self):            # once per worker process, after sched.install()
            return [code objects whose lines are scheduling points]
        def configs(self, tier):    # list of JSON-able dicts; keys 'bound' and 'cap' are used by the engine
        def new(self, cfg):         # -> Exec, fresh for every execution

    class MyExec(Exec):
        def body(self): ...         # runs as simulated thread 0; return value = observation
        def monitor(self, sched):   # optional state invariant, called at every scheduling point
        def verdict(self, r):       # ExecResult -> None | (signature, detail)

The search is the loop from the brief: run a prefix, take alternative 0 afterwards, and for every later
point push ``choices[:i] + [alt]`` for every alternative whose cumulated cost stays within the bound.
Cost model = delay bounding: every non-default scheduling alternative costs 1; ``choose`` alternatives
are free.
"""
from __future__ import annotations

import collections
import hashlib
import importlib
import json
import os
import pickle
import random
import selectors
import struct
import subprocess
import sys
import time

from . import sched as _sched

VERIF = os.path.dirname(os.path.dirname(os.path.abspath(__file__)))
PY = os.environ.get('VERIF_PYTHON', '/venv/bin/python')
REPO = os.environ.get('VERIF_REPO', '/repo')


class Harness:
    name = '?'
    kind = 'sched'          # 'sched' (schedule DFS) or 'cases' (enumerated cases)
    opts: dict = {}         # options for sched.Sched
    twin = False            # has a free-running twin (real threads, no scheduler)

    def setup(self):
        return []

    def configs(self, tier):
        return [{}]

    def new(self, cfg):
        raise NotImplementedError

    # kind == 'cases'
    def cases(self, cfg):
        raise NotImplementedError

    def run_case(self, cfg, case):
        """-> (observation, None | (signature, detail), nontrivial: bool)"""
        raise NotImplementedError


class Exec:
    monitor = None
    metrics: dict | None = None   # name -> number; the engine keeps the maximum over all executions

    def body(self):
        raise NotImplementedError

    def verdict(self, r):
        return default_verdict(r)

    def observe(self, r):
        """Hashable summary of the outcome, used to count distinct outcomes."""
        if r.error is not None:
            return r.error[0]
        if r.exc is not None:
            return 'exc:' + type(r.exc).__name__
        return repr(r.value)[:300]


def stuck_signature(r):
    parts = sorted(f'{n}@{w}[{on}]' for (n, st, on, w) in (r.stuck or []))
    return ';'.join(parts)


def default_verdict(r, allow_exc=False):
    """Hang / engine-visible failures common to all harnesses."""
    if r.error is not None:
        kind = r.error[0]
        if kind == 'deadlock':
            return ('deadlock:' + stuck_signature(r), 'no thread can run: ' + repr(r.stuck))
        if kind == 'horizon':
            return ('livelock:' + stuck_signature(r), f'{r.error[1]}; unfinished: {r.stuck!r}')
        if kind == 'invariant':
            return ('invariant:' + str(r.error[1]), str(r.error[1]))
        return ('engine:' + kind, repr(r.error))
    if r.exc is not None and not allow_exc:
        return ('body-exc:' + type(r.exc).__name__, repr(r.exc)[:300])
    return None


# ------------------------------------------------------------------ worker side
_harness_cache = {}


def load_harness(module, name):
    key = (module, name)
    h = _harness_cache.get(key)
    if h is None:
        mod = importlib.import_module(module)
        h = mod.HARNESSES[name]
        if isinstance(h, type):
            h = h()
        codes = h.setup() or []
        if h.kind == 'sched':
            _sched.install()
        h._codes = list(codes)
        h._warm = set()
        _harness_cache[key] = h
    _sched.set_traced(h._codes)
    return h


def _cfg_key(cfg):
    return json.dumps(cfg, sort_keys=True, default=str)


def run_schedule(h, cfg, prefix, record=False):
    ex = h.new(cfg)
    opts = dict(h.opts)
    opts.update(cfg.get('sched_opts', {}))
    r = _sched.run_once(ex.body, prefix, monitor=ex.monitor if callable(ex.monitor) else None,
                        record=record, **opts)
    _gc_tick()
    return ex, r


_gc_count = [0]


def _gc_tick():
    # cycles created by an execution are all young (the collector is disabled while it runs)
    import gc
    _gc_count[0] += 1
    if _gc_count[0] % 500 == 0:
        gc.collect()
    else:
        gc.collect(0)


def explore_job(job):
    """Depth-first exploration from the given prefixes, up to job['budget'] executions."""
    h = load_harness(job['module'], job['harness'])
    cfg = job['cfg']
    bound = job['bound']
    ck = _cfg_key(cfg)
    if ck not in h._warm:
        run_schedule(h, cfg, [])      # discarded warm-up (lazy module state)
        h._warm.add(ck)
        import gc
        gc.collect()
        gc.freeze()
    stack = [list(p) for p in job['prefixes']]
    dbg = os.environ.get('VERIF_DEBUG_DIVERGENCE')
    dbg_traces = {}
    budget = job['budget']
    tlimit = _sched.REAL.perf_counter() + job.get('tbudget', 5.0)
    res = dict(execs=0, nodes=0, nontrivial=0, outcomes=collections.Counter(), violations={},
               metrics={}, maxpoints=0, maxthreads=0, replayed=0, samples=[], switches=0)
    first = True
    while stack and res['execs'] < budget and (_sched.REAL.perf_counter() < tlimit or res['execs'] == 0):
        prefix = stack.pop()
        ex, r = run_schedule(h, cfg, prefix, record='alts' if dbg else False)
        if dbg:
            dbg_traces[tuple(r.choices)] = r.trace
        if r.error is not None and r.error[0] == 'replay-divergence':
            if os.environ.get('VERIF_DEBUG_DIVERGENCE'):
                for ch, tr in dbg_traces.items():
                    if list(ch[:len(prefix) - 1]) == prefix[:-1] and not any(ch[len(prefix) - 1:]):
                        print('DIVERGENCE-DEBUG original parent', tr[len(prefix) - 4:len(prefix) + 1], file=sys.stderr, flush=True)
                for k in range(3):
                    ex2, r2 = run_schedule(h, cfg, prefix[:-1], record='alts')
                    print('DIVERGENCE-DEBUG parent rerun', k, len(r2.points), r2.points[len(prefix) - 1:len(prefix) + 1],
                          r2.trace[len(prefix) - 3:len(prefix) + 1], file=sys.stderr, flush=True)
                ex2, r2 = run_schedule(h, cfg, prefix, record=True)
                print('DIVERGENCE-DEBUG child rerun', r2.error, r2.trace[-4:], file=sys.stderr, flush=True)
            raise _sched.EngineError(f'replay divergence in {h.name} {cfg}: {r.error[1]} prefix={prefix}')
        res['execs'] += 1
        res['nodes'] += max(0, len(r.points) - len(prefix)) + (1 if not prefix else 0)
        res['maxpoints'] = max(res['maxpoints'], len(r.points))
        res['maxthreads'] = max(res['maxthreads'], r.nthreads)
        res['switches'] += r.switches
        if any(r.choices):
            res['nontrivial'] += 1
        obs = ex.observe(r)
        res['outcomes'][obs if isinstance(obs, str) else repr(obs)] += 1
        if ex.metrics:
            for k, v in ex.metrics.items():
                if v is not None and v > res['metrics'].get(k, float('-inf')):
                    res['metrics'][k] = v
        v = ex.verdict(r)
        if v is not None:
            sig, detail = v
            ent = res['violations'].get(sig)
            if ent is None:
                res['violations'][sig] = dict(count=1, choices=list(r.choices), detail=detail)
            else:
                ent['count'] += 1
                if len(r.choices) < len(ent['choices']):
                    ent['choices'] = list(r.choices)
                    ent['detail'] = detail
        if first or job.get('recheck_all') or res['execs'] % 25 == 0:
            # determinism: the complete choice list must reproduce the same execution
            first = False
            ex2, r2 = run_schedule(h, cfg, list(r.choices))
            if r2.choices != r.choices or r2.points != r.points or ex2.observe(r2) != obs:
                raise _sched.EngineError(
                    f'nondeterministic replay in {h.name} {cfg}: prefix={prefix} '
                    f'{len(r.points)} vs {len(r2.points)} points, {obs!r} vs {ex2.observe(r2)!r}')
            res['replayed'] += 1
            if len(res['samples']) < 1:
                res['samples'].append(dict(choices=_rle(r.choices), points=len(r.points), outcome=str(obs)[:200]))
        # expand
        cost = 0
        ch = r.choices
        pts = r.points
        np_ = len(prefix)
        for i in range(len(pts)):
            kind, n = pts[i]
            if i >= np_ and n > 1:
                if kind == 'c':
                    for alt in range(1, n):
                        stack.append(ch[:i] + [alt])
                elif cost + 1 <= bound:
                    for alt in range(1, n):
                        stack.append(ch[:i] + [alt])
            if kind != 'c' and ch[i] != 0:
                cost += 1
    res['leftover'] = stack
    return res


def _rle(choices):
    """Compact printable form of a choice list: only the non-default positions."""
    return {'len': len(choices), 'nonzero': {str(i): c for i, c in enumerate(choices) if c}}


def cases_job(job):
    h = load_harness(job['module'], job['harness'])
    cfg = job['cfg']
    res = dict(execs=0, nodes=0, nontrivial=0, outcomes=collections.Counter(), violations={},
               metrics={}, maxpoints=0, maxthreads=0, replayed=0, samples=[], switches=0, leftover=[])
    for case in job['cases']:
        obs, v, nontrivial = h.run_case(cfg, case)
        res['execs'] += 1
        res['nodes'] += 1
        if nontrivial:
            res['nontrivial'] += 1
        res['outcomes'][obs if isinstance(obs, str) else repr(obs)[:300]] += 1
        if v is not None:
            sig, detail = v
            ent = res['violations'].get(sig)
            if ent is None:
                res['violations'][sig] = dict(count=1, choices=case, detail=detail)
            else:
                ent['count'] += 1
        if len(res['samples']) < 1:
            res['samples'].append(dict(case=case, outcome=str(obs)[:200]))
    return res


def replay_job(job):
    h = load_harness(job['module'], job['harness'])
    cfg = job['cfg']
    if h.kind == 'cases':
        obs, v, _ = h.run_case(cfg, job['choices'])
        obs2, v2, _ = h.run_case(cfg, job['choices'])
        return dict(verdict=v, same=(repr(obs) == repr(obs2) and v == v2), trace=[], observation=repr(obs)[:2000])
    run_schedule(h, cfg, [])
    ex, r = run_schedule(h, cfg, job['choices'], record=True)
    ex2, r2 = run_schedule(h, cfg, job['choices'], record=True)
    v, v2 = ex.verdict(r), ex2.verdict(r2)
    same = (r.trace == r2.trace and (v and v[0]) == (v2 and v2[0]))
    return dict(verdict=v, same=same, trace=r.trace, observation=repr(ex.observe(r))[:2000],
                error=repr(r.error), thread_excs=r.thread_excs)


def twin_job(job):
    """Free-running twin: same body, real threads, no scheduler. Returns the observation."""
    h = load_harness(job['module'], job['harness'])
    return h.run_twin(job['cfg'])


JOBS = dict(explore=explore_job, cases=cases_job, replay=replay_job, twin=twin_job)


def worker_main():
    """Child process: length-prefixed pickles on fd 0 (jobs) and a private dup of fd 1 (results)."""
    out = os.fdopen(os.dup(1), 'wb')
    inp = os.fdopen(os.dup(0), 'rb')
    log = os.environ.get('VERIF_WORKER_LOG')
    dn = os.open(log if log else os.devnull, os.O_WRONLY | os.O_CREAT | os.O_APPEND)
    os.dup2(dn, 1)
    os.dup2(dn, 2)
    _sched.QUIET[0] = True
    sys.setswitchinterval(1e-4)
    while True:
        hdr = inp.read(4)
        if len(hdr) < 4:
            break
        n = struct.unpack('<I', hdr)[0]
        job = pickle.loads(inp.read(n))
        try:
            res = ('ok', JOBS[job['type']](job))
        except BaseException as e:
            import traceback
            res = ('error', f'{type(e).__name__}: {e}\n{traceback.format_exc()}')
        data = pickle.dumps(res)
        out.write(struct.pack('<I', len(data)))
        out.write(data)
        out.flush()
    os._exit(0)


# ------------------------------------------------------------------ master side
class Worker:
    def __init__(self, idx):
        env = dict(os.environ)
        env['PYTHONPATH'] = os.pathsep.join([VERIF, os.path.join(REPO, 'src')] +
                                            ([env['PYTHONPATH']] if env.get('PYTHONPATH') else []))
        env['PYTHONHASHSEED'] = '0'
        env.setdefault('MPSERVICE_VERIF', '1')
        self.p = subprocess.Popen([PY, '-c', 'from mc.explore import worker_main; worker_main()'],
                                  stdin=subprocess.PIPE, stdout=subprocess.PIPE, env=env, cwd=VERIF)
        self.idx = idx
        self.job = None
        self.deadline = None
        self.njobs = 0

    def send(self, job, timeout):
        data = pickle.dumps(job)
        self.p.stdin.write(struct.pack('<I', len(data)))
        self.p.stdin.write(data)
        self.p.stdin.flush()
        self.job = job
        self.deadline = time.time() + timeout
        self.njobs += 1

    def recv(self):
        hdr = self.p.stdout.read(4)
        if len(hdr) < 4:
            raise _sched.EngineError(f'worker died (exit {self.p.poll()}) on job {self._jobdesc()}')
        n = struct.unpack('<I', hdr)[0]
        buf = b''
        while len(buf) < n:
            chunk = self.p.stdout.read(n - len(buf))
            if not chunk:
                raise _sched.EngineError('worker died mid-message')
            buf += chunk
        status, res = pickle.loads(buf)
        job, self.job = self.job, None
        if status != 'ok':
            raise _sched.EngineError(f'worker error on {self._jobdesc(job)}:\n{res}')
        return job, res

    def _jobdesc(self, job=None):
        job = job or self.job or {}
        return f"{job.get('type')} {job.get('harness')} {job.get('cfg')}"

    def kill(self):
        try:
            self.p.kill()
            self.p.wait(5)
        except Exception:
            pass


class Pool:
    def __init__(self, n=None):
        self.n = n or int(os.environ.get('VERIF_JOBS', os.cpu_count() or 4))
        self.workers = []
        self.sel = selectors.DefaultSelector()

    def _spawn(self):
        w = Worker(len(self.workers))
        self.workers.append(w)
        self.sel.register(w.p.stdout, selectors.EVENT_READ, w)
        return w

    def close(self):
        for w in self.workers:
            w.kill()
        self.workers = []

    def _recycle(self, w):
        self.sel.unregister(w.p.stdout)
        try:
            w.p.stdin.close()
            w.p.wait(5)
        except Exception:
            w.kill()
        self.workers.remove(w)

    def run(self, jobs, on_result, job_timeout=300, recycle_after=400):
        """jobs: deque of job dicts (on_result may append more). Runs until the queue drains."""
        idle = [w for w in self.workers if w.job is None]
        busy = sum(1 for w in self.workers if w.job is not None)
        while jobs or busy:
            while jobs and (idle or len(self.workers) < self.n):
                w = idle.pop() if idle else self._spawn()
                w.send(jobs.popleft(), job_timeout)
                busy += 1
            ready = self.sel.select(timeout=5)
            now = time.time()
            for key, _ in ready:
                w = key.data
                if w.job is None:
                    raise _sched.EngineError('unexpected output from idle worker')
                job, res = w.recv()
                busy -= 1
                on_result(job, res)
                if w.njobs >= recycle_after:
                    self._recycle(w)
                else:
                    idle.append(w)
            for w in self.workers:
                if w.job is not None and now > w.deadline:
                    desc = w._jobdesc()
                    w.kill()
                    raise _sched.EngineError(f'worker watchdog expired on {desc} prefixes={str(w.job.get("prefixes"))[:300]}')

    def call(self, job, timeout=300):
        out = []
        self.run(collections.deque([job]), lambda j, r: out.append(r), job_timeout=timeout)
        return out[0]


class ConfigStats:
    def __init__(self, harness, cfg):
        self.harness = harness
        self.cfg = cfg
        self.execs = 0
        self.nodes = 0
        self.nontrivial = 0
        self.outcomes = collections.Counter()
        self.violations = {}
        self.metrics = {}
        self.maxpoints = 0
        self.maxthreads = 0
        self.replayed = 0
        self.samples = []
        self.capped = False
        self.switches = 0
        self.wall = 0.0

    def add(self, res):
        self.execs += res['execs']
        self.nodes += res['nodes']
        self.nontrivial += res['nontrivial']
        self.outcomes.update(res['outcomes'])
        self.maxpoints = max(self.maxpoints, res['maxpoints'])
        self.maxthreads = max(self.maxthreads, res['maxthreads'])
        self.replayed += res['replayed']
        self.switches += res['switches']
        if len(self.samples) < 2:
            self.samples.extend(res['samples'][:1])
        for k, v in res['metrics'].items():
            if v > self.metrics.get(k, float('-inf')):
                self.metrics[k] = v
        for sig, ent in res['violations'].items():
            cur = self.violations.get(sig)
            if cur is None:
                self.violations[sig] = dict(ent)
            else:
                cur['count'] += ent['count']
                if isinstance(ent['choices'], list) and isinstance(cur['choices'], list) \
                        and len(ent['choices']) < len(cur['choices']):
                    cur['choices'] = ent['choices']
                    cur['detail'] = ent['detail']

    def summary(self):
        return dict(harness=self.harness, cfg=self.cfg, executions=self.execs, schedule_tree_nodes=self.nodes,
                    nontrivial=self.nontrivial, distinct_outcomes=len(self.outcomes),
                    max_points=self.maxpoints, max_threads=self.maxthreads, capped=self.capped,
                    metrics_max=self.metrics, violations={k: v['count'] for k, v in self.violations.items()},
                    determinism_replays=self.replayed, wall_s=round(self.wall, 2))


def explore(module, harness_names, tier, seed=0, pool=None, log=print, only_cfg=None):
    """Explore every configuration of the given harnesses. Returns list[ConfigStats]."""
    own = pool is None
    pool = pool or Pool()
    rnd = random.Random(seed)
    mod = importlib.import_module(module)
    stats = []
    jobs = collections.deque()
    index = {}
    for hn in harness_names:
        h = mod.HARNESSES[hn]
        if isinstance(h, type):
            h = h()
        cfgs = h.configs(tier)
        if tier == 'thorough':
            # the thorough tier contains the quick tier: its configurations come first, so that a thorough run that hits
            # its time budget has still covered everything the quick check covers
            cfgs = h.configs('quick') + cfgs
        for cfg in cfgs:
            if only_cfg is not None and not only_cfg(cfg):
                continue
            if (hn, _cfg_key(cfg)) in index:
                continue
            cs = ConfigStats(hn, cfg)
            cs.first = tier == 'thorough' and cfg in h.configs('quick')
            cs.cap = cfg.get('cap', 200000)
            cs.kind = h.kind
            cs.t0 = time.time()
            index[(hn, _cfg_key(cfg))] = cs
            stats.append(cs)
    order = list(stats)
    rnd.shuffle(order)
    order.sort(key=lambda c: not getattr(c, 'first', False))     # (stable: the seed still decides the order within each part)
    # biggest spaces first would balance better, but the seed decides the order (results are order-independent)
    for cs in order:
        cfg = cs.cfg
        if cs.kind == 'cases':
            h = mod.HARNESSES[cs.harness]
            h = h() if isinstance(h, type) else h
            cases = list(h.cases(cfg))
            cs.total_cases = len(cases)
            chunk = max(1, min(2000, len(cases) // (pool.n * 4) + 1))
            for i in range(0, len(cases), chunk):
                jobs.append(dict(type='cases', module=module, harness=cs.harness, cfg=cfg, cases=cases[i:i + chunk]))
        else:
            jobs.append(dict(type='explore', module=module, harness=cs.harness, cfg=cfg, bound=cfg.get('bound', 1),
                             prefixes=[[]], budget=200, tbudget=3.0))

    # wall-clock budget (thorough tier only, VERIF_TIME_BUDGET_S overrides; 0 = none): when it is used up, what is still
    # queued is dropped and the configurations concerned are reported as capped (cap_reason 'time'), never as exhaustive
    budget_s = float(os.environ.get('VERIF_TIME_BUDGET_S') or (1200 if tier == 'thorough' else 0))
    t_start = time.time()
    drained = [False]

    def over():
        return budget_s > 0 and time.time() - t_start > budget_s

    def on_result(job, res):
        cs = index[(job['harness'], _cfg_key(job['cfg']))]
        cs.add(res)
        cs.wall = time.time() - cs.t0
        left = res.get('leftover') or []
        if over() and not drained[0]:
            drained[0] = True
            keep = []
            for j in jobs:
                if j['type'] == 'cases':
                    c = index[(j['harness'], _cfg_key(j['cfg']))]
                    c.capped = True
                    c.cap_reason = f'time budget {budget_s:.0f} s'
                    c.unexplored_prefixes = getattr(c, 'unexplored_prefixes', 0) + len(j['cases'])
                else:
                    keep.append(j)
            jobs.clear()
            jobs.extend(keep)
        if left:
            if cs.execs >= cs.cap or over():
                cs.capped = True
                if cs.execs < cs.cap:
                    cs.cap_reason = f'time budget {budget_s:.0f} s'
                cs.unexplored_prefixes = getattr(cs, 'unexplored_prefixes', 0) + len(left)
                return
            # split the leftover stack so that idle workers get something
            want = max(1, min(len(left), pool.n * 2 - len(jobs)))
            size = (len(left) + want - 1) // want
            for i in range(0, len(left), size):
                jobs.append(dict(job, prefixes=left[i:i + size], budget=min(400, cs.cap - cs.execs + 1)))

    try:
        pool.run(jobs, on_result)
    finally:
        if own:
            pool.close()
    return stats
