"""histex: explicit-state search over operation histories on one real manager server + real agent processes.

A *group* is one real mpservice ServerProcess, the driver process itself and two real agent processes with a command loop
over a pipe.  The search is the brief's Python idiom: a state is the history reaching it; ``build`` replays the history on
FRESH hosted objects of the same long-lived server; ``canon`` is the reference model's state; the oracle is evaluated after
EVERY step of every replay (so "same canonical state reached two ways" is compared for free).
"""
from __future__ import annotations

import gc
import os
import pickle
import sys
import traceback


# ------------------------------------------------------------------ agent side
def agent_main(conn):
    """Command loop of an agent process.  Handles live in a dict by name (and nowhere else: no local variable may keep a
    proxy alive beyond its command)."""
    handles = {}
    while True:
        cmd = None
        try:
            cmd = conn.recv()
        except EOFError:
            return
        op = cmd[0]
        try:
            if op == 'exit':
                conn.send(('ok', None))
                return
            if op == 'unpickle':
                handles[cmd[1]] = pickle.loads(cmd[2])
                res = None
            elif op == 'pickle':
                res = pickle.dumps(handles[cmd[1]])
            elif op == 'drop':
                del handles[cmd[1]]
                gc.collect()
                res = None
            elif op == 'dropfast':
                del handles[cmd[1]]
                res = None
            elif op == 'dropall':
                handles.clear()
                gc.collect()
                res = None
            elif op == 'gc':
                gc.collect()
                res = None
            elif op == 'call':
                res = call_method(handles[cmd[1]], cmd[2], cmd[3])
            elif op == 'callget':
                # call a method that returns a proxy; keep it as a new handle
                handles[cmd[4]] = getattr(handles[cmd[1]], cmd[2])(*cmd[3])
                res = None
            elif op == 'store':
                # put handle cmd[2] into the hosted container behind handle cmd[1]
                handles[cmd[1]].append(handles[cmd[2]])
                res = None
            elif op == 'eval':
                res = eval(cmd[1], {'handles': handles, 'os': os, 'gc': gc})
            else:
                raise ValueError(op)
            conn.send(('ok', res))
        except BaseException as e:
            try:
                conn.send(('err', type(e).__name__, repr(e.args)[:300], traceback.format_exc()[-600:]))
            except Exception:
                return


def call_method(h, name, args):
    """-> ('value', v) | ('raised', type name, args, remote?, tb-names-method?)"""
    try:
        if name == '__getitem__':
            v = h[args[0]]
        elif name == '__setitem__':
            h[args[0]] = args[1]
            v = None
        elif name == '__len__':
            v = len(h)
        elif name == '__delitem__':
            del h[args[0]]
            v = None
        elif name in ('__iadd__', '__imul__'):
            # in-place operators: `h op= x` must leave the name bound to the same object (the proxy), as it does for
            # the object itself
            h0 = h
            if name == '__iadd__':
                h += args[0]
            else:
                h *= args[0]
            v = None if h is h0 else ('REBOUND-TO', type(h).__name__)
        elif name == '__iter__':
            v = list(iter(h))
        elif name == '__getattr__':
            v = getattr(h, args[0])
        elif name == '__setattr__':
            setattr(h, args[0], args[1])
            v = None
        elif name == '__delattr__':
            delattr(h, args[0])
            v = None
        else:
            v = getattr(h, name)(*args)
        try:
            pickle.dumps(v)
        except Exception:
            try:
                lv = list(v)
                pickle.dumps(lv)
            except Exception:
                lv = None
            v = ('UNPICKLABLE', type(v).__name__, lv)
        return ('value', v)
    except Exception as e:
        from mpservice.multiprocessing.remote_exception import get_remote_traceback, is_remote_exception
        remote = is_remote_exception(e)
        tb = get_remote_traceback(e) if remote else ''
        # (the tail of the server-side traceback, and its header if there is one further up)
        short = tb if len(tb) <= 400 else ('Traceback ... ' if 'Traceback (most recent call last)' in tb[:-400] else '') + tb[-400:]
        return ('raised', type(e).__name__, _argrepr(e), remote, short)


def _argrepr(e):
    try:
        pickle.dumps(e.args)
        return e.args
    except Exception:
        return repr(e.args)


class Agent:
    def __init__(self, name):
        from mpservice.multiprocessing import Process
        import multiprocessing
        self.name = name
        ctx = multiprocessing.get_context('spawn')
        self.conn, child = ctx.Pipe()
        self.proc = Process(target=agent_main, args=(child,), name=name)
        self.proc.start()
        child.close()

    def do(self, *cmd, timeout=60):
        self.conn.send(cmd)
        if not self.conn.poll(timeout):
            raise TimeoutError(f'agent {self.name} did not answer {cmd[0]}')
        r = self.conn.recv()
        if r[0] == 'err':
            raise AgentError(f'agent {self.name} {cmd[:2]}: {r[1]} {r[2]}\n{r[3]}')
        return r[1]

    def close(self):
        try:
            self.conn.send(('exit',))
            self.conn.poll(5)
        except Exception:
            pass
        self.proc.join(10)
        if self.proc.is_alive():
            self.proc.kill()


class AgentError(Exception):
    pass


class LocalAgent:
    """the driver process itself, same command set"""

    def __init__(self):
        self.handles = {}
        self.name = 'driver'

    def do(self, *cmd, timeout=None):
        op = cmd[0]
        h = self.handles
        if op == 'unpickle':
            h[cmd[1]] = pickle.loads(cmd[2])
        elif op == 'pickle':
            return pickle.dumps(h[cmd[1]])
        elif op == 'drop':
            del h[cmd[1]]
            gc.collect()
        elif op == 'dropfast':
            del h[cmd[1]]
        elif op == 'dropall':
            h.clear()
            gc.collect()
        elif op == 'gc':
            gc.collect()
        elif op == 'call':
            return call_method(h[cmd[1]], cmd[2], cmd[3])
        elif op == 'callget':
            h[cmd[4]] = getattr(h[cmd[1]], cmd[2])(*cmd[3])
        elif op == 'store':
            h[cmd[1]].append(h[cmd[2]])
        else:
            raise ValueError(op)

    def close(self):
        self.handles.clear()
        gc.collect()
