"""Evidence files, known findings, replay artefacts and the VIOLATION / KNOWN-FINDING lines."""
from __future__ import annotations

import hashlib
import json
import os
import re
import time

from . import explore as _ex
from . import sched as _sched

VERIF = _ex.VERIF
KNOWN = os.path.join(VERIF, 'known_findings.json')
REPLAYS = os.environ.get('VERIF_REPLAY_DIR') or os.path.join(VERIF, 'replays')
EVIDENCE = os.environ.get('VERIF_EVIDENCE_DIR') or os.path.join(VERIF, 'evidence')


def load_known():
    if not os.path.exists(KNOWN):
        return []
    with open(KNOWN) as f:
        return json.load(f).get('findings', [])


def match_known(known, prop, harness, cfg, sig):
    for k in known:
        if k.get('property') != prop:
            continue
        if k.get('harness') not in (None, harness):
            continue
        if 'signature' in k and k['signature'] != sig:
            continue
        if 'signature_re' in k and not re.fullmatch(k['signature_re'], sig):
            continue
        kc = k.get('config') or {}
        if any(cfg.get(a) != b for a, b in kc.items()):
            continue
        return k
    return None


def write_replay(prop, module, harness, cfg, sig, choices, detail, trace=None, observation=None):
    os.makedirs(REPLAYS, exist_ok=True)
    h = hashlib.sha1(json.dumps([harness, cfg, sig], sort_keys=True, default=str).encode()).hexdigest()[:10]
    path = os.path.join(REPLAYS, f'{prop}-{harness}-{h}.json')
    with open(path, 'w') as f:
        json.dump(dict(property=prop, module=module, harness=harness, cfg=cfg, signature=sig, choices=choices,
                       detail=detail, observation=observation, trace=trace,
                       how_to_replay=f'bin/check {prop} --replay {path}'), f, indent=1, default=str)
    return path


def conclude(prop, module, tier, seed, stats, t0, pool, *, assumptions, rule, extra=None, twins=0,
             exhaustive_note=None, explanation=None, log=print):
    """Decide, print, write evidence. Returns the process exit code."""
    known = load_known()
    reported_known = {}
    new = []
    for cs in stats:
        for sig, ent in sorted(cs.violations.items()):
            k = match_known(known, prop, cs.harness, cs.cfg, sig)
            if k is not None:
                reported_known.setdefault(k['description'], 0)
                reported_known[k['description']] += ent['count']
            else:
                new.append((cs, sig, ent))
    for desc, cnt in reported_known.items():
        log(f'KNOWN-FINDING: property={prop} {desc} [{cnt} executions]')
    exit_code = 0
    confirmed = 0
    seen_sigs = set()
    for cs, sig, ent in new:
        if (cs.harness, sig) in seen_sigs and len(seen_sigs) > 20:
            continue
        if ent.get('no_replay'):
            # found by a free-running conformance twin (real processes): nothing to replay under the scheduler
            rep = dict(verdict=(sig, ent['detail']), same=True, trace=[], observation=ent['detail'])
        else:
            # confirm by replaying the recorded schedule twice in a worker
            rep = pool.call(dict(type='replay', module=module, harness=cs.harness, cfg=cs.cfg, choices=ent['choices']))
        v = rep['verdict']
        if not rep['same'] or v is None or v[0] != sig:
            log(f'ENGINE-ERROR: property={prop} violation {sig!r} of {cs.harness} {cs.cfg} did not replay '
                f'identically (same={rep["same"]} verdict={v!r})')
            exit_code = max(exit_code, 2)
            continue
        confirmed += 1
        if (cs.harness, sig) in seen_sigs:
            continue
        seen_sigs.add((cs.harness, sig))
        if len(seen_sigs) > 8:
            if exit_code == 0:
                exit_code = 1
            continue
        path = write_replay(prop, module, cs.harness, cs.cfg, sig, ent['choices'], ent['detail'],
                            trace=rep['trace'], observation=rep['observation'])
        log(f'VIOLATION property={prop} replay={path}')
        log(f'  harness={cs.harness} cfg={json.dumps(cs.cfg, default=str)} signature={sig}')
        log(f'  {ent["detail"][:500]}  [{ent["count"]} executions]')
        if exit_code == 0:
            exit_code = 1

    if len(seen_sigs) > 8:
        log(f'  ... and {len(seen_sigs) - 8} further distinct violation signatures (see evidence per_configuration)')
    execs = sum(cs.execs for cs in stats)
    nodes = sum(cs.nodes for cs in stats)
    nontrivial = sum(cs.nontrivial for cs in stats)
    capped = [cs for cs in stats if cs.capped]
    samples = []
    for cs in stats:
        for smp in cs.samples[:1]:
            samples.append(dict(harness=cs.harness, cfg=cs.cfg, **smp))
        if len(samples) >= 6:
            break
    coverage = dict(
        states=nodes,
        transitions=max(nodes - len(stats), 1) if nodes else 0,
        traces_validated_against_impl=sum(cs.replayed for cs in stats) + twins + confirmed,
        samples=samples or [dict(note='no executions')],
        evaluations=execs,
        distinct_nontrivial=nontrivial,
        rule=rule,
        exhaustive=not capped,
        configurations=len(stats),
        distinct_outcomes=sum(len(cs.outcomes) for cs in stats),
        capped_configurations=[dict(harness=cs.harness, cfg=cs.cfg, executions=cs.execs,
                                    unexplored_prefixes=getattr(cs, 'unexplored_prefixes', None),
                                    cap_reason=getattr(cs, 'cap_reason', 'execution cap')) for cs in capped],
        per_configuration=[cs.summary() for cs in stats],
        known_findings_reported=reported_known,
        explanation=explanation or ('states = nodes of the schedule/choice tree visited (scheduling points of the real code under the '
                     'controlled scheduler); transitions = edges of that tree; traces_validated_against_impl = '
                     'executions re-run from their recorded choice list with an identical trace (determinism '
                     'validation) + free-running twin runs + confirmed violation replays. Every execution runs the '
                     'real library code, there is no separate model. For harnesses of kind "cases" (bounded-exhaustive enumeration of programs / inputs / duration vectors) one node is one enumerated case.' + (' ' + exhaustive_note if exhaustive_note else '')),
    )
    if extra:
        coverage.update(extra)
    ev = dict(property_id=prop, tier=tier, seed=seed, level='model_checking', coverage=coverage,
              assumptions=assumptions, wall_s=round(time.time() - t0, 2),
              violations=len(new))
    os.makedirs(EVIDENCE, exist_ok=True)
    with open(os.path.join(EVIDENCE, f'{prop}.json'), 'w') as f:
        json.dump(ev, f, indent=1, default=str)
    log(f'{prop} {tier}: {execs} executions, {nodes} tree nodes, {len(stats)} configurations, '
        f'{coverage["distinct_outcomes"]} distinct outcomes, {len(new)} new violation signatures, '
        f'{len(reported_known)} known findings, capped={len(capped)}, wall={ev["wall_s"]}s')
    return exit_code
