"""Self-tests run at the start of every check: the explorer must find a seeded bug and stay silent on its repair, and the
simulated primitives must agree with the real ones on every single-thread operation sequence up to length 4."""
from . import explore as _ex
from . import sched as _sched


def run(pool):
    stats = _ex.explore('checks._toy', ['toy'], 'quick', pool=pool)
    by = {(cs.cfg['locked'], cs.cfg['bound']): cs for cs in stats}
    if by[(False, 0)].violations:
        raise _sched.EngineError('selftest: default schedule of the toy harness must not lose an update')
    if 'lost-update' not in by[(False, 1)].violations:
        raise _sched.EngineError('selftest: seeded lost update not found at d=1')
    if by[(True, 2)].violations:
        raise _sched.EngineError(f'selftest: false alarm on the locked counter: {by[(True, 2)].violations}')
    if by[(True, 2)].execs < 20:
        raise _sched.EngineError('selftest: locked counter explored suspiciously few schedules')
    diff = _ex.explore('checks._diff', ['diff'], 'quick', pool=pool)
    for cs in diff:
        if cs.violations:
            sig, ent = next(iter(cs.violations.items()))
            raise _sched.EngineError(f'selftest: simulated primitive disagrees with the real one: {ent["detail"]}')
        if cs.execs < 100:
            raise _sched.EngineError('selftest: differential primitive test ran suspiciously few cases')
    return stats + diff
