"""Command-line front end: bin/check <ID> [--tier quick|thorough] [--replay FILE] [--harness NAME]"""
from __future__ import annotations

import argparse
import importlib
import json
import os
import sys
import time

from . import explore as _ex
from . import report as _rep
from . import sched as _sched

COMMON_ASSUMPTIONS = [
    'CPython executes threads under the GIL with sequentially consistent memory; thread switches are explored at '
    'line boundaries of the traced library functions and at blocking operations, not inside a source line',
    'stdlib synchronisation objects (queue.Queue, Event, Semaphore, Future, ThreadPoolExecutor) are the real classes '
    'running on simulated Lock/RLock/Condition/SimpleQueue; each of their operations is one atomic step unless it blocks',
    'simulated primitives implement the documented semantics (differential self-test against the real ones runs first)',
    'bounds as stated per configuration: delay bound d (every non-default scheduling decision costs 1), '
    'environment choices enumerated completely',
]


def main(argv=None):
    ap = argparse.ArgumentParser()
    ap.add_argument('prop')
    ap.add_argument('--tier', default=os.environ.get('VERIF_TIER', 'quick'), choices=['quick', 'thorough'])
    ap.add_argument('--replay')
    ap.add_argument('--harness', action='append')
    ap.add_argument('--jobs', type=int)
    ap.add_argument('--cfg', help='JSON subset filter on configurations')
    args = ap.parse_args(argv)
    prop = args.prop.upper()
    seed = int(os.environ.get('VERIF_SEED', '0') or 0)
    sys.path.insert(0, _ex.VERIF)
    module = f'checks.{prop.lower()}'
    t0 = time.time()
    try:
        mod = importlib.import_module(module)
        pool = _ex.Pool(args.jobs)
        try:
            if args.replay:
                return replay(prop, args.replay, pool)
            from . import selftest
            selftest.run(pool)
            if hasattr(mod, 'run'):
                return mod.run(args.tier, seed, pool, t0)
            names = args.harness or mod.PLAN[args.tier]
            flt = None
            if args.cfg:
                want = json.loads(args.cfg)
                flt = lambda c: all(c.get(k) == v for k, v in want.items())
            stats = _ex.explore(module, names, args.tier, seed=seed, pool=pool, only_cfg=flt)
            twins = 0
            if hasattr(mod, 'twins'):
                twins = mod.twins(args.tier, pool, stats)
            return _rep.conclude(prop, module, args.tier, seed, stats, t0, pool,
                                 assumptions=COMMON_ASSUMPTIONS + list(getattr(mod, 'ASSUMPTIONS', [])),
                                 rule=getattr(mod, 'RULE', DEFAULT_RULE), twins=twins,
                                 extra=getattr(mod, 'EXTRA', None))
        finally:
            pool.close()
    except _sched.EngineError as e:
        print(f'ENGINE-ERROR: property={prop} {e}', file=sys.stderr)
        return 2


DEFAULT_RULE = ('depth-first enumeration of all schedules of the harness with at most d deviations from the default '
                'scheduler (delay bounding) x all environment choices; each execution has a distinct choice list by '
                'construction; non-trivial = contains at least one non-default scheduling decision or environment choice')


def replay(prop, path, pool):
    with open(path) as f:
        rp = json.load(f)
    rep = pool.call(dict(type='replay', module=rp['module'], harness=rp['harness'], cfg=rp['cfg'], choices=rp['choices']))
    for step in rep['trace']:
        print('  ', *step)
    print('observation:', rep['observation'])
    print('verdict:', rep['verdict'], 'identical on second run:', rep['same'])
    if not rep['same']:
        print(f'ENGINE-ERROR: property={prop} replay diverged')
        return 2
    if rep['verdict'] is not None:
        print(f'VIOLATION property={prop} replay={path}')
        return 1
    return 0


if __name__ == '__main__':
    sys.exit(main())
