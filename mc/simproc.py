"""Simulated process boundary for schedex (DESIGN.md 3.3).

The properties about processes (C11, C12, C20) concern the protocol code on both sides of a pipe, all of which is
ordinary Python in mpservice.  The child-side code runs as additional simulated threads of the same exploration, tagged
with a process tag (``SimThread.ptag``), behind a boundary that models what CPython's multiprocessing does:

  SimConnection   pair replacing multiprocessing.connection.Pipe: send pickles, the pipe has a byte capacity, send blocks
                  when full, recv raises EOFError when every writer handle is closed; handles are owned by the process
                  that created / unpickled them and are closed when that process dies.
  SimMPQueue      multiprocessing.queues.Queue: per-process buffer + per-process feeder thread moving pickled items into
                  the shared pipe; close(), join_thread(), joined at process exit unless cancelled; optional maxsize.
  SimSimpleProcQ  multiprocessing.queues.SimpleQueue (+ the shared `_rlock` mpservice adds): writes straight to the pipe.
  SimPopen        replaces SpawnProcess._Popen: the process object is pickled, the copy is unpickled IN the child's main
                  thread and a transcription of BaseProcess._bootstrap runs its run(); exit functions join queue feeders;
                  poll / wait / terminate / kill.
  ProcLogging     stand-in for the `logging` module as seen by mpservice.multiprocessing.context: one logger hierarchy
                  per simulated process.
  crash points    sched.crashable: at every scheduling point of a crashable process an extra free choice "kill here".
"""
from __future__ import annotations

import collections
import logging
import logging.handlers
import multiprocessing
import multiprocessing.context
import multiprocessing.process
import multiprocessing.util
import pickle
import queue as _queue
import sys
import threading
import traceback
import weakref

from . import sched as _sched
from .sched import S


# ------------------------------------------------------------------ per-execution state
class World:
    def __init__(self, s):
        self.s = s
        self.objs = {}          # key -> shared object (pipe cores, queues)
        self.next_key = 0
        self.handles = weakref.WeakSet()   # live SimConnection handles (weak: a dropped Connection closes itself)
        self.procs = {}         # ptag -> SimPopen
        self.procobj = {}       # ptag -> process object as seen by current_process()
        self.pipe_capacity = 65536
        self.exit_funcs = collections.defaultdict(list)   # ptag -> callables run at process exit
        self.nproc = 0

    def key(self, obj):
        self.next_key += 1
        self.objs[self.next_key] = obj
        return self.next_key


def world() -> World | None:
    s = S()
    if s is None:
        return None
    w = s.local.get('simproc')
    if w is None:
        w = s.local['simproc'] = World(s)
        s.exit_hooks.append(_cleanup_globals)
    return w


def _cleanup_globals():
    multiprocessing.process._children.clear()
    multiprocessing.util._finalizer_registry.clear()


def cur_tag():
    s = S()
    if s is None:
        return 'main'
    me = s.me()
    return me.ptag if me is not None else 'main'


# ------------------------------------------------------------------ pipes
class PipeCore:
    def __init__(self, capacity):
        self.capacity = capacity
        self.buf = collections.deque()
        self.used = 0
        self.writers = 0
        self.readers = 0


class SimConnection:
    def __init__(self, key, readable, writable, _count=True):
        w = world()
        self._w = w
        self.key = key
        self.core = w.objs[key]
        self.readable = readable
        self.writable = writable
        self.closed = False
        self.owner = cur_tag()
        if _count:
            if writable:
                self.core.writers += 1
            if readable:
                self.core.readers += 1
        w.handles.add(self)

    # pickling: the receiving process gets its own handle (a dup of the descriptor)
    def __reduce__(self):
        popen = multiprocessing.context.get_spawning_popen()
        if isinstance(popen, SimPopen):
            # spawning: the descriptor is duplicated for the child when the process is created, i.e. it is open
            # from now on, although the child's Connection object only comes into being when the child unpickles it
            if self.writable:
                self.core.writers += 1
            if self.readable:
                self.core.readers += 1
            popen.inflight.append([self.key, self.readable, self.writable, False])
            return (_claim_conn, (popen.tag, len(popen.inflight) - 1))
        return (_rebuild_conn, (self.key, self.readable, self.writable))

    def _check(self):
        if self.closed:
            raise OSError('handle is closed')

    def send(self, obj):
        self.send_bytes(pickle.dumps(obj))

    def send_bytes(self, b):
        self._check()
        s, me = _sched._ctx()
        c = self.core
        if s is None or self._w is None or s is not self._w.s:
            c.buf.append(b)
            c.used += len(b)
            return
        n = len(b)
        # a message larger than the pipe goes through in pieces; it is complete once the reader has drained enough:
        # modelled as "blocks while the pipe holds anything and the message does not fit"
        while c.used > 0 and c.used + n > c.capacity:
            if c.readers == 0:
                raise BrokenPipeError('no reader')
            s.block(lambda: not (c.used > 0 and c.used + n > c.capacity), None, on='pipe-full')
        c.buf.append(b)
        c.used += n

    def recv_bytes(self, maxlength=None):
        self._check()
        s, me = _sched._ctx()
        c = self.core
        while not c.buf:
            if c.writers == 0:
                raise EOFError
            if s is None:
                raise EOFError
            s.block(lambda: bool(c.buf) or c.writers == 0, None, on='pipe-empty')
        b = c.buf.popleft()
        c.used -= len(b)
        return b

    def recv(self):
        return pickle.loads(self.recv_bytes())

    def poll(self, timeout=0.0):
        s, me = _sched._ctx()
        c = self.core
        if c.buf or c.writers == 0:
            return True
        if s is None or not timeout:
            return False
        r = s.block(lambda: bool(c.buf) or c.writers == 0, timeout, on='pipe-poll')
        return r != 'timeout'

    def close(self):
        if self.closed:
            return
        self.closed = True
        if self.writable:
            self.core.writers -= 1
        if self.readable:
            self.core.readers -= 1
        try:
            self._w.handles.discard(self)
        except AttributeError:
            pass

    def _force_close(self):
        """the owning process died: no library code runs"""
        if not self.closed:
            self.closed = True
            if self.writable:
                self.core.writers -= 1
            if self.readable:
                self.core.readers -= 1

    def __del__(self):
        # a dropped Connection object closes its descriptor (refcounting, as in CPython)
        try:
            w = self._w
            if not self.closed and w is not None and S() is w.s:
                self._force_close()
        except Exception:
            pass

    def fileno(self):
        return 1000 + self.key

    def __enter__(self):
        return self

    def __exit__(self, *a):
        self.close()


def _rebuild_conn(key, readable, writable):
    return SimConnection(key, readable, writable)


def _claim_conn(tag, idx):
    # the child takes over a descriptor that was duplicated for it at spawn time
    w = world()
    ent = w.procs[tag].inflight[idx]
    ent[3] = True
    return SimConnection(ent[0], ent[1], ent[2], _count=False)


def SimPipe(duplex=False):
    w = world()
    if duplex:
        raise NotImplementedError('duplex simulated pipes are not needed')
    key = w.key(PipeCore(w.pipe_capacity))
    return SimConnection(key, True, False), SimConnection(key, False, True)


# ------------------------------------------------------------------ multiprocessing.Queue
class _QShared:
    def __init__(self, maxsize, capacity):
        self.core = PipeCore(capacity)
        self.core.writers = 1      # the queue's pipe is kept open by every process that holds the queue
        self.core.readers = 1
        self.maxsize = maxsize
        self.count = 0             # items put and not yet got (the bounded semaphore)
        self.per = {}              # ptag -> per-process state
        self.rlock = None


class SimMPQueue:
    """multiprocessing.queues.Queue"""

    def __init__(self, maxsize=0, *, ctx=None, _key=None):
        w = world()
        self._w = w
        if _key is None:
            sh = _QShared(maxsize, w.pipe_capacity if w else 65536)
            self._key = w.key(sh) if w else None
            self._sh = sh
        else:
            self._key = _key
            self._sh = w.objs[_key]
        self._maxsize = self._sh.maxsize

    def __reduce__(self):
        return (_rebuild_queue, (self._key,))

    @property
    def maxsize(self):
        return self._maxsize

    def _st(self):
        tag = cur_tag()
        st = self._sh.per.get(tag)
        if st is None:
            st = self._sh.per[tag] = dict(buf=collections.deque(), feeder=None, closed=False, joincancelled=False, tag=tag)
        return st

    def put(self, obj, block=True, timeout=None):
        s, me = _sched._ctx()
        sh = self._sh
        st = self._st()
        if st['closed']:
            raise ValueError(f'Queue {self!r} is closed')
        if s is None or self._w is None or s is not self._w.s:
            st['buf'].append(pickle.dumps(obj))
            return
        if sh.maxsize > 0:
            while sh.count >= sh.maxsize:
                if not block:
                    raise _queue.Full
                r = s.block(lambda: sh.count < sh.maxsize, timeout, on='mpqueue-full')
                if r == 'timeout':
                    raise _queue.Full
        sh.count += 1
        st['buf'].append(pickle.dumps(obj))     # pickled at put time?  No: by the feeder - but content is immutable here
        if st['feeder'] is None:
            self._start_feeder(st)

    def put_nowait(self, obj):
        return self.put(obj, False)

    def _start_feeder(self, st):
        w = self._w
        tag = st['tag']
        th = threading.Thread(target=self._feed, args=(st,), name=f'QueueFeederThread-{tag}', daemon=True)
        st['feeder'] = th
        th.start()
        # process exit joins the feeder (multiprocessing.util Finalize with exitpriority -5) unless cancelled
        w.exit_funcs[tag].append(lambda: self._exit_join(st))

    def _feed(self, st):
        s = S()
        sh = self._sh
        c = sh.core
        while True:
            if not st['buf']:
                s.block(lambda: bool(st['buf']), None, on='feeder-idle')
            b = st['buf'].popleft()
            if b is None:      # close() sentinel
                return
            n = len(b)
            while c.used > 0 and c.used + n > c.capacity:
                s.block(lambda: not (c.used > 0 and c.used + n > c.capacity), None, on='pipe-full')
            c.buf.append(b)
            c.used += n

    def get(self, block=True, timeout=None):
        s, me = _sched._ctx()
        sh = self._sh
        c = sh.core
        if s is None or self._w is None or s is not self._w.s:
            if not c.buf:
                raise _queue.Empty
        else:
            while not c.buf:
                if not block:
                    raise _queue.Empty
                r = s.block(lambda: bool(c.buf), timeout, on='mpqueue-empty')
                if r == 'timeout':
                    raise _queue.Empty
        b = c.buf.popleft()
        c.used -= len(b)
        sh.count -= 1
        return pickle.loads(b)

    def get_nowait(self):
        return self.get(False)

    def qsize(self):
        return self._sh.count

    def empty(self):
        return not self._sh.core.buf

    def full(self):
        return self._sh.maxsize > 0 and self._sh.count >= self._sh.maxsize

    def close(self):
        st = self._st()
        if st['closed']:
            return
        st['closed'] = True
        if st['feeder'] is not None:
            st['buf'].append(None)

    def join_thread(self):
        st = self._st()
        if st['feeder'] is not None and not st['joincancelled']:
            st['feeder'].join()

    def cancel_join_thread(self):
        self._st()['joincancelled'] = True

    def _exit_join(self, st):
        # multiprocessing.queues.Queue._finalize_close + _finalize_join at interpreter exit of that process
        if st['feeder'] is not None and not st['joincancelled']:
            if not st['closed']:
                st['closed'] = True
                st['buf'].append(None)
            st['feeder'].join()


def _rebuild_queue(key):
    return SimMPQueue(_key=key)


class SimSimpleProcQ:
    """multiprocessing.queues.SimpleQueue with the extra shared `_rlock` of mpservice's _SimpleProcessQueue"""

    def __init__(self, *, ctx=None, _key=None):
        w = world()
        self._w = w
        if _key is None:
            sh = _QShared(0, w.pipe_capacity)
            sh.rlock = _sched.SimRLock()
            self._key = w.key(sh)
        else:
            self._key = _key
        self._sh = w.objs[self._key]
        self._rlock = self._sh.rlock

    def __reduce__(self):
        return (_rebuild_simpleq, (self._key,))

    def put(self, obj):
        s, me = _sched._ctx()
        b = pickle.dumps(obj)
        c = self._sh.core
        n = len(b)
        if s is not None and s is self._w.s:
            while c.used > 0 and c.used + n > c.capacity:
                s.block(lambda: not (c.used > 0 and c.used + n > c.capacity), None, on='pipe-full')
        c.buf.append(b)
        c.used += n

    def get(self):
        s, me = _sched._ctx()
        c = self._sh.core
        with self._rlock:
            while not c.buf:
                if s is None:
                    raise EOFError
                s.block(lambda: bool(c.buf), None, on='simpleq-empty')
            b = c.buf.popleft()
            c.used -= len(b)
        return pickle.loads(b)

    def empty(self):
        return not self._sh.core.buf

    def close(self):
        pass


def _rebuild_simpleq(key):
    return SimSimpleProcQ(_key=key)


# ------------------------------------------------------------------ processes
class SimPopen:
    method = 'spawn'

    def __init__(self, process_obj):
        w = world()
        s = w.s
        self._w = w
        self.returncode = None
        w.nproc += 1
        self.tag = f'child{w.nproc}'
        self.pid = 40000 + w.nproc
        self.sentinel = 50000 + w.nproc
        self.finalizer = None
        self.inflight = []      # descriptors duplicated for the child: [key, readable, writable, claimed]
        w.procs[self.tag] = self
        multiprocessing.context.set_spawning_popen(self)
        try:
            data = pickle.dumps(process_obj)
        finally:
            multiprocessing.context.set_spawning_popen(None)
        tag = self.tag
        popen = self

        def main():
            # transcription of spawn_main + BaseProcess._bootstrap
            exitcode = 1
            try:
                child = pickle.loads(data)          # the child's copy, built in the child
                w.procobj[tag] = child
                try:
                    child.run()
                    exitcode = 0
                except SystemExit as e:
                    if e.code is None:
                        exitcode = 0
                    elif isinstance(e.code, int):
                        exitcode = e.code
                    else:
                        exitcode = 1
                except _sched.Abort:
                    raise
                except BaseException:
                    exitcode = 1
                    traceback.print_exc()
                else:
                    exitcode = getattr(child, '_mpservice_exitcode_', 0)
                finally:
                    # util._exit_function(): finalizers of this process (queue feeders are joined)
                    for f in list(w.exit_funcs.get(tag, ())):
                        f()
            finally:
                me = s.me()
                if me is not None and not me.dead and not s.aborting:
                    popen._exited(exitcode)

        th = threading.Thread(target=main, name=f'{tag}-MainThread')
        th.start()
        th._sim.ptag = tag
        self.thread = th

    def _exited(self, code):
        if self.returncode is None:
            self.returncode = code
            for h in list(self._w.handles):
                if h.owner == self.tag:
                    h._force_close()
            for ent in self.inflight:
                if not ent[3]:          # never unpickled by the child: the descriptor dies with the process
                    ent[3] = True
                    core = self._w.objs[ent[0]]
                    if ent[2]:
                        core.writers -= 1
                    if ent[1]:
                        core.readers -= 1

    def duplicate_for_child(self, fd):
        return fd

    def poll(self, flag=None):
        return self.returncode

    def wait(self, timeout=None):
        s, me = _sched._ctx()
        if self.returncode is None and s is not None:
            r = s.block(lambda: self.returncode is not None, timeout, on='waitpid')
        return self.returncode

    def _signal(self, sig):
        if self.returncode is None:
            crash_process(self._w.s, self.tag, sig)

    def terminate(self):
        self._signal(15)

    def kill(self):
        self._signal(9)

    def close(self):
        pass


def crash_process(s, tag, sig=9):
    """The simulated process `tag` dies now from signal `sig`: its threads stop where they are, its descriptors close."""
    w = s.local.get('simproc')
    popen = w.procs.get(tag)
    if popen is None or popen.returncode is not None:
        return
    s.kill_process(tag)            # every other thread of the process is unwound before we go on
    popen._exited(-sig)
    me = s.me()
    if me is not None and me.ptag == tag:
        me.dead = True             # the calling thread belongs to the victim: it dies at its next primitive
        me.state = _sched.FINISHED


def sim_wait(object_list, timeout=None):
    """multiprocessing.connection.wait for process sentinels and simulated connections"""
    s, me = _sched._ctx()
    w = world()

    def ready():
        out = []
        for o in object_list:
            if isinstance(o, int):
                p = next((p for p in w.procs.values() if p.sentinel == o), None)
                if p is None or p.returncode is not None:
                    out.append(o)
            elif isinstance(o, SimConnection):
                if o.core.buf or o.core.writers == 0:
                    out.append(o)
        return out

    r = ready()
    if r or s is None:
        return r
    s.block(lambda: bool(ready()), timeout, on='connection.wait')
    return ready()


def current_process():
    s = S()
    if s is not None:
        me = s.me()
        if me is not None and me.ptag != 'main':
            w = s.local.get('simproc')
            p = w.procobj.get(me.ptag) if w else None
            if p is not None:
                return p
    return multiprocessing.process._current_process


# ------------------------------------------------------------------ logging per process
class ProcLogging:
    """Stand-in for the `logging` module inside library modules: one logger hierarchy per simulated process."""

    def __init__(self):
        for name in ('DEBUG', 'INFO', 'WARNING', 'ERROR', 'CRITICAL', 'Handler', 'LogRecord', 'Formatter', 'NullHandler',
                     'StreamHandler'):
            setattr(self, name, getattr(logging, name))
        self.handlers = logging.handlers

    def _mgr(self):
        w = world()
        if w is None:
            return logging.Logger.manager
        tag = cur_tag()
        mgrs = w.objs.setdefault('logmgrs', {})
        m = mgrs.get(tag)
        if m is None:
            root = logging.RootLogger(logging.WARNING)
            m = logging.Manager(root)
            root.manager = m
            mgrs[tag] = m
        return m

    def getLogger(self, name=None):
        m = self._mgr()
        if not name or (isinstance(name, str) and name == m.root.name):
            return m.root
        return m.getLogger(name)

    def captureWarnings(self, flag):
        pass


PROCLOG = ProcLogging()

_installed = [False]


def install():
    """Route mpservice's process machinery through the simulation (worker processes of the checker only)."""
    if _installed[0]:
        return
    _installed[0] = True
    _sched.install()
    import mpservice.mpserver._server as _server
    import mpservice.mpserver._servlet as _servlet
    import mpservice.mpserver._worker as _worker
    import mpservice.multiprocessing.context as ctxmod
    import multiprocessing.connection
    multiprocessing.connection.Pipe = SimPipe
    ctxmod.MP_SPAWN_CTX.Queue = SimMPQueue
    ctxmod.SpawnProcess._Popen = staticmethod(SimPopen)
    ctxmod.logging = PROCLOG
    multiprocessing.process.current_process = current_process
    multiprocessing.current_process = current_process
    multiprocessing.context.BaseContext.current_process = staticmethod(current_process)
    for m in (_server, _servlet, _worker):
        m._SimpleProcessQueue = SimSimpleProcQ
    multiprocessing.connection.wait = sim_wait
    _orig_flush = multiprocessing.util._flush_std_streams
    multiprocessing.util._flush_std_streams = lambda: None
