"""C08  Streaming has bounded look-ahead and bounded concurrency.

Same harness bodies as C01 (here the environment's completion choices count as deviations: default = oldest first) (real fifo_stream with environment-resolved futures; real Stream.parmap on the real
ThreadPoolExecutor with gated worker calls) plus Stream.buffer(m), with longer streams, and a state invariant that the
scheduler evaluates at EVERY scheduling point of EVERY explored execution:

    pulled - received <= capacity + 3      (parmap: capacity = 2 * concurrency)
    pulled - received <= m + 2             (buffer(m))
    running calls     <= concurrency

The maxima actually observed are reported in the evidence (metrics_max) so a vacuous harness is visible.
"""
from __future__ import annotations

from mc import sched
from mc.explore import Exec, Harness, default_verdict

from . import c01

PROPERTY = 'C08'


class Exec08(c01.FifoExec):
    prop = 'C08'


class FifoEnv08(c01.FifoEnvH):
    name = 'fifo_env'
    exec_cls = Exec08

    def configs(self, tier):
        quick = tier == 'quick'
        out = []
        for capacity in (1, 2, 3):
            for n in (capacity + 5,) if quick else (capacity + 5, 2 * capacity + 6):
                out.append(dict(mode='env', n=n, capacity=capacity, rx=False, rex=True, bound=1 if quick else 2,
                                fail=1 if capacity == 2 else None, cap=60000 if quick else 500000))
        return out


class ParmapPool08(c01.ParmapPoolH):
    name = 'parmap_pool'
    exec_cls = Exec08

    def configs(self, tier):
        quick = tier == 'quick'
        out = []
        for conc in (1, 2, 3):
            n = 2 * conc + 5
            out.append(dict(mode='pool', conc=conc, n=n, rx=False, rex=False, bound=1 if quick else 2,
                            cap=60000 if quick else 500000))
        # a second round on the same Stream right after a round that ended early: calls left over from the abandoned
        # round count towards `concurrency` too
        for conc in (1, 2):
            out.append(dict(mode='pool', conc=conc, n=2 * conc + 3, rx=False, rex=False, rounds=2, stop_after=1,
                            bound=1 if quick else 2, cap=60000 if quick else 500000))
            out.append(dict(mode='pool', conc=conc, n=2 * conc + 3, rx=False, rex=False, rounds=2, fail=0,
                            bound=1 if quick else 2, cap=60000 if quick else 500000))
        return out


class BufferExec(Exec):
    def __init__(self, cfg):
        self.cfg = cfg
        self.pulled = 0
        self.received = 0
        self.metrics = {'lookahead': 0}

    def source(self):
        for i in range(self.cfg['n']):
            self.pulled += 1
            yield i

    def monitor(self, s):
        la = self.pulled - self.received
        if la > self.metrics['lookahead']:
            self.metrics['lookahead'] = la
        if la > self.cfg['m'] + 2:
            return f'lookahead {la} > {self.cfg["m"] + 2}'

    def body(self):
        from mpservice.streamer import Stream
        out = []
        for x in Stream(self.source()).buffer(self.cfg['m']):
            self.received += 1
            out.append(x)
        return out

    def verdict(self, r):
        if r.error is not None and r.error[0] in ('invariant', 'replay-divergence'):
            return default_verdict(r)
        return None


class Buffer08(Harness):
    name = 'buffer'
    opts = dict(max_points=5000, timers='free')

    def setup(self):
        from mpservice._queues import SingleLane
        from mpservice.streamer import _streamer as S
        codes = []
        for f in (S.Buffer._run_worker, S.Buffer.__iter__, SingleLane.put, SingleLane.get):
            codes += sched.all_codes(f)
        return codes

    def configs(self, tier):
        quick = tier == 'quick'
        return [dict(m=m, n=m + 5, bound=2 if quick else 3, cap=80000 if quick else 800000) for m in (1, 2, 3)]

    def new(self, cfg):
        return BufferExec(cfg)


HARNESSES = {'fifo_env': FifoEnv08, 'parmap_pool': ParmapPool08, 'buffer': Buffer08}
PLAN = {'quick': ['fifo_env', 'parmap_pool', 'buffer'], 'thorough': ['fifo_env', 'parmap_pool', 'buffer']}
