"""C16  Async variants give the same answers as their sync counterparts.

'afifo' (cases, stand-alone virtual loop): the real async_fifo_stream and AsyncStream.parmap (AsyncParmapperAsync) are
run for EVERY vector of per-call virtual durations from {0,1,2,3} (hence every completion order and every alignment of a
completion with the feeder's and the consumer's steps; inside one event loop nothing else is nondeterministic) x failing
position x preprocessor-rejected position (including the first element) x return_x x return_exceptions x capacity.
Each case is compared with the boring reference list AND with the real sync fifo_stream run on the same inputs.

'aserver' (schedex + virtual loop): AsyncServer.call/stream vs Server.call/stream answers for the same requests.
"""
from __future__ import annotations

import asyncio
import concurrent.futures
import itertools

from mc import sched, vloop
from mc.explore import Exec, Harness, default_verdict

PROPERTY = 'C16'


class Boom(Exception):
    pass


def norm(v):
    if isinstance(v, BaseException):
        return (type(v).__name__,) + tuple(v.args)
    if isinstance(v, tuple):
        return tuple(norm(a) for a in v)
    return v


SHIFT = [100]   # the preprocessor transforms its element (x -> x + 100); return_x must still pair with the ORIGINAL x


def reference(n, fail, rej, rx, rex):
    out = []
    for x in range(n):
        if x == rej:
            y = Boom('pre', x)
        elif x == fail:
            y = Boom('func', x)
        else:
            y = x * 10
        if isinstance(y, Boom) and not rex:
            out.append(('RAISED',) + norm(y))
            return out
        out.append(norm((x, y) if rx else y))
    return out


def run_sync(n, fail, rej, rx, rex, capacity):
    from mpservice.streamer._streamer import fifo_stream

    def func(x):
        x = x - SHIFT[0] if rej is not None else x
        fut = concurrent.futures.Future()
        if x == fail:
            fut.set_exception(Boom('func', x))
        else:
            fut.set_result(x * 10)
        return fut

    def pre(x):
        if x == rej:
            raise Boom('pre', x)
        return x + SHIFT[0]

    out = []
    try:
        for z in fifo_stream(iter(range(n)), func, capacity=capacity, return_x=rx, return_exceptions=rex,
                             preprocessor=pre if rej is not None else None):
            out.append(norm(z))
    except Boom as e:
        out.append(('RAISED',) + norm(e))
    return out


def run_async(variant, n, durs, fail, rej, rx, rex, capacity):
    from mpservice.streamer._streamer import async_fifo_stream
    from mpservice.streamer._streamer_async import AsyncParmapperAsync

    async def main():
        async def src():
            for i in range(n):
                yield i

        async def work(x):
            x = x - SHIFT[0] if rej is not None else x     # the preprocessor's output is what the worker receives
            if durs[x]:
                await asyncio.sleep(durs[x])
            if x == fail:
                raise Boom('func', x)
            return x * 10

        async def func(x):
            return asyncio.get_running_loop().create_task(work(x))

        def pre(x):
            if x == rej:
                raise Boom('pre', x)
            return x + SHIFT[0]

        kw = dict(return_x=rx, return_exceptions=rex, preprocessor=pre if rej is not None else None)
        if variant == 'afifo':
            it = async_fifo_stream(src(), func, capacity=capacity, **kw)
        else:
            it = AsyncParmapperAsync(src(), work, concurrency=capacity, **kw).__aiter__()
        out = []
        try:
            async for z in it:
                out.append(norm(z))
        except Boom as e:
            out.append(('RAISED',) + norm(e))
        return out

    return vloop.run(main())


class AFifoH(Harness):
    name = 'afifo'
    kind = 'cases'

    def setup(self):
        sched.install()     # the sync side starts a feeder thread: it runs under the scheduler (default schedule)
        self._sync_cache = {}
        return []

    def sync_result(self, n, fail, rej, rx, rex, capacity):
        key = (n, fail, rej, rx, rex, capacity)
        if key not in self._sync_cache:
            r = sched.run_once(lambda: run_sync(*key))
            if r.error is not None or r.exc is not None:
                self._sync_cache[key] = ['SYNC-FAILED', repr(r.error), repr(r.exc)]
            else:
                self._sync_cache[key] = r.value
        return self._sync_cache[key]

    def configs(self, tier):
        quick = tier == 'quick'
        out = []
        for variant in ('afifo', 'aparmap'):
            for n in (1, 2, 3, 4):
                out.append(dict(variant=variant, n=n, durs=[0, 1, 2, 3]))
        return out

    def cases(self, cfg):
        n = cfg['n']
        pos = [None] + list(range(n))
        for durs in itertools.product(cfg['durs'], repeat=n):
            for fail in pos:
                for rej in pos:
                    if rej is not None and rej == fail:
                        continue
                    for capacity in (1, 2):
                        for rx in (False, True):
                            for rex in (False, True):
                                yield [list(durs), fail, rej, capacity, rx, rex]

    def run_case(self, cfg, case):
        durs, fail, rej, capacity, rx, rex = case
        n = cfg['n']
        exp = reference(n, fail, rej, rx, rex)
        try:
            got = run_async(cfg['variant'], n, durs, fail, rej, rx, rex, capacity)
        except BaseException as e:
            got = ['CRASH', type(e).__name__, str(e)[:100]]
        syn = self.sync_result(n, fail, rej, rx, rex, capacity)
        nontrivial = len(set(durs)) > 1 or fail is not None or rej is not None
        v = None
        if syn != exp:
            v = ('sync-differs-from-reference', f'sync {syn} vs reference {exp} for {case}')
        elif got != syn:
            kind = 'rejected-element' if rej is not None else ('failing-element' if fail is not None else 'plain')
            v = (f'async-differs-from-sync:{kind}', f'{cfg["variant"]} {case}: async {got} vs sync {syn}')
        return repr(got), v, nontrivial


from . import srv  # noqa: E402

BIG = 1000


class AServer(srv.ASrvHarness):
    """AsyncServer.call / stream must give the answers of the same reference (spec) that Server is checked against in
    C02/C04 - same servlets, same requests, same failures."""
    name = 'aserver'

    def configs(self, tier):
        quick = tier == 'quick'
        d = 1 if quick else 2
        cap = 60000 if quick else 600000
        O = ['answers', 'errors', 'shutdown']
        three = [[[0, BIG, False]], [[1, BIG, False]], [[2, BIG, False]]]
        return [
            dict(topo='single', capacity=2, calls=[[[0, BIG, False], [1, BIG, False]], [[2, BIG, False]]], oracles=O, bound=d + 1, cap=cap * 2),
            dict(topo='single', capacity=3, nworkers=2, gated=['A'], env_wait=True, fail={'A': [1]}, calls=three, oracles=O, bound=d, cap=cap),
            dict(topo='seq', capacity=3, gated=['B'], fail={'A': [1]}, prefail={'B': [2]}, calls=three, oracles=O, bound=d, cap=cap),
            dict(topo='single', capacity=2, calls=[[[10, BIG, False]]], stream=dict(xs=[0, 1, 2], rex=True), fail={'A': [1]},
                 oracles=O, bound=d, cap=cap),
            # a saturated server: several tasks wait inside _enqueue for a free slot
            dict(topo='single', capacity=1, calls=[[[0, BIG, False]], [[1, BIG, False]], [[2, BIG, False]]], oracles=O, bound=d, cap=cap),
            # at capacity, a request with backpressure is rejected at once - as Server does (backlog invariant checked too)
            dict(topo='single', capacity=1, gated=['A'], env_wait=True, calls=[[[0, BIG, False]], [[1, BIG, True]]],
                 oracles=O + ['backlog'], bound=d, cap=cap),
            dict(topo='single', capacity=2, gated=['A'], env_wait=True, calls=[[[0, BIG, False]], [[1, BIG, False]], [[2, BIG, True]]],
                 oracles=O + ['backlog'], bound=0 if quick else 1, cap=cap),
            dict(topo='single', capacity=2, nworkers=2, gated=['A'], env_wait=True,
                 calls=[[[0, BIG, False]], [[1, BIG, False]], [[2, BIG, False]], [[3, BIG, False]]], oracles=O, bound=0 if quick else 1, cap=cap),
            dict(topo='single', capacity=2, calls=[[[0, BIG, False]], [[1, BIG, False]], [[2, BIG, False]], [[3, BIG, False]]],
                 oracles=O, bound=d, cap=cap),
            dict(topo='single', capacity=1, gated=['A'], calls=[[[10, BIG, False]], [[11, BIG, False]]], stream=dict(xs=[0, 1], rex=True),
                 oracles=O, bound=d, cap=cap),
            # the only slot belongs to a request whose caller has timed out; the next request waits for it - Server answers
            # it as soon as the late result has freed the slot (C07 stream_drop, same configuration), so must AsyncServer
            dict(topo='single', capacity=1, gated=['A'], env_wait=True, env_wait_t=3.0,
                 calls=[[[0, 2, False]], [[1, BIG, False]]], late_call=9, oracles=O + ['timeouts'], bound=d, cap=cap),
        ]


class HybridExec(Exec):
    """the thread/loop hybrids: ParmapperAsync (sync consumer, async worker on a loop thread) and AsyncParmapper (async consumer
    on a virtual loop, sync worker in a thread pool) must give the reference list as well"""

    def __init__(self, cfg):
        self.cfg = cfg

    def body(self):
        import time
        cfg = self.cfg
        n, durs, fail, rej, rx, rex, conc = cfg['n'], cfg['durs'], cfg.get('fail'), cfg.get('rej'), cfg['rx'], cfg['rex'], cfg['conc']

        def pre(x):
            if x == rej:
                raise Boom('pre', x)
            return x + SHIFT[0]

        kw = dict(concurrency=conc, return_x=rx, return_exceptions=rex, preprocessor=pre if rej is not None else None)
        out = []
        if cfg['variant'] == 'sync_async':
            from mpservice.streamer import Stream

            async def work(x):
                x = x - SHIFT[0] if rej is not None else x
                if durs[x]:
                    await asyncio.sleep(durs[x] * 0.01)
                if x == fail:
                    raise Boom('func', x)
                return x * 10

            try:
                for z in Stream(iter(range(n))).parmap(work, **kw):
                    out.append(norm(z))
            except Boom as e:
                out.append(('RAISED',) + norm(e))
            return out

        from mpservice.streamer._streamer_async import AsyncStream

        def work(x):
            x = x - SHIFT[0] if rej is not None else x
            if durs[x]:
                time.sleep(durs[x] * 0.01)
            if x == fail:
                raise Boom('func', x)
            return x * 10

        async def main():
            async def src():
                for i in range(n):
                    yield i
            try:
                async for z in AsyncStream(src()).parmap(work, executor='thread', **kw):
                    out.append(norm(z))
            except Boom as e:
                out.append(('RAISED',) + norm(e))

        asyncio.run(main())
        return out

    def verdict(self, r):
        v = default_verdict(r)
        if v:
            return v
        cfg = self.cfg
        exp = reference(cfg['n'], cfg.get('fail'), cfg.get('rej'), cfg['rx'], cfg['rex'])
        if r.value != exp:
            return ('hybrid-differs-from-reference:' + cfg['variant'], f'{cfg}: got {r.value}, expected {exp}')
        return None


class HybridsH(Harness):
    name = 'hybrids'
    opts = dict(max_points=8000, timers='free', max_timer_fires=2000)

    def setup(self):
        vloop.install()
        from mpservice._queues import SingleLane
        from mpservice.streamer import _streamer as S
        from mpservice.streamer import _streamer_async as A
        codes = []
        for f in (S.fifo_stream, S.async_fifo_stream, S.ParmapperAsync.__iter__, A.AsyncParmapper.__aiter__, SingleLane.put, SingleLane.get):
            codes += sched.all_codes(f)
        return codes

    def configs(self, tier):
        quick = tier == 'quick'
        out = []
        for variant in ('sync_async', 'async_sync'):
            for durs in ([0, 0, 0], [2, 1, 0], [0, 3, 1]):
                for rx, rex, fail, rej in ((True, True, 1, None), (False, False, None, 0), (True, False, 2, 1), (False, True, None, 2)):
                    out.append(dict(variant=variant, n=3, durs=durs, conc=2, rx=rx, rex=rex, fail=fail, rej=rej,
                                    bound=1 if quick else 2, cap=20000 if quick else 200000))
        return out

    def new(self, cfg):
        return HybridExec(cfg)


class OpaqueExec(Exec):
    """the sync/async adapters and AsyncStream.buffer carry their elements untouched, whatever the elements are - in
    particular elements whose == is element-wise (answers with a list, or with something that refuses to be a truth value),
    as Stream.buffer does for the same input (C03, input 'opaque')"""

    def __init__(self, cfg):
        self.cfg = cfg

    def body(self):
        from mpservice.streamer._streamer_async import AsyncIter, AsyncStream, SyncIter
        from .c03 import Arr, Vec
        xs = [Vec([1, 2]), Arr([3, 4]), Vec([]), 'plain']
        pipe = self.cfg['pipe']
        out = []

        async def src():
            for x in xs:
                yield x

        if pipe == 'synciter':
            try:
                for z in SyncIter(src()):
                    out.append(z)
            except Exception as e:
                out.append(('RAISED', type(e).__name__))
        else:
            async def main():
                try:
                    if pipe == 'asynciter':
                        it = AsyncIter(iter(xs))
                    else:
                        it = AsyncStream(src()).buffer(self.cfg['m'])
                    async for z in it:
                        out.append(z)
                except Exception as e:
                    out.append(('RAISED', type(e).__name__))
            asyncio.run(main())
        return [next((i for i, x in enumerate(xs) if x is z), repr(z)) for z in out]

    def verdict(self, r):
        v = default_verdict(r)
        if v:
            return v
        if r.value != [0, 1, 2, 3]:
            return ('opaque-elements-not-carried-through:' + self.cfg['pipe'],
                    f'{self.cfg}: delivered the input elements {r.value}, expected all four in order')
        return None


class OpaqueH(Harness):
    name = 'opaque'
    opts = dict(max_points=8000, timers='free', max_timer_fires=2000)

    def setup(self):
        vloop.install()
        return []

    def configs(self, tier):
        return [dict(pipe='synciter', bound=0), dict(pipe='asynciter', bound=0),
                dict(pipe='abuffer', m=1, bound=0), dict(pipe='abuffer', m=3, bound=0)]

    def new(self, cfg):
        return OpaqueExec(cfg)


HARNESSES = {'afifo': AFifoH, 'aserver': AServer, 'hybrids': HybridsH, 'opaque': OpaqueH}
PLAN = {'quick': ['afifo', 'aserver', 'hybrids', 'opaque'], 'thorough': ['afifo', 'aserver', 'hybrids', 'opaque']}
RULE = ('complete enumeration of duration vectors x failing position x rejected position x capacity x flags; each case '
        'runs the real async code on a virtual event loop and the real sync code; non-trivial = durations not all equal '
        'or a failure/rejection present')
