"""C06  Backlog never exceeds capacity; slots are always returned.

Real Server + ThreadServlet; 2-3 caller threads race for the slots of a server with capacity 1-2 while the gather thread
returns results.  Invariant evaluated at EVERY scheduling point: len(ledger) <= capacity.  End oracle: with backpressure
a rejected call raised ServerBacklogFull at once; without it nobody waited longer than the timeout; once all results have
emerged the backlog is 0 (also after failures, timeouts and an abandoned stream).
"""
from __future__ import annotations

from . import srv

PROPERTY = 'C06'


class Overshoot(srv.SrvHarness):
    """timers fire only when nothing can run (they only add the legal outcomes TimeoutError / BacklogFull-after-waiting)"""
    name = 'overshoot'
    opts = dict(max_points=6000, timers='free', max_timer_fires=200)

    def configs(self, tier):
        quick = tier == 'quick'
        O = ['backlog', 'shutdown']
        out = []
        # capacity 1, three single calls without backpressure: waiter + newcomer race
        out.append(dict(topo='single', capacity=1, calls=[[[0, 10, False]], [[1, 10, False]], [[2, 10, False]]],
                        oracles=O, bound=2, cap=150000 if quick else 1500000))
        out.append(dict(topo='single', capacity=2, calls=[[[0, 10, False]], [[1, 10, False]], [[2, 10, False]]],
                        oracles=O, bound=1 if quick else 2, cap=100000 if quick else 1000000))
        # mixed backpressure
        out.append(dict(topo='single', capacity=1, calls=[[[0, 10, True]], [[1, 10, False]], [[2, 10, True]]],
                        oracles=O, bound=1 if quick else 2, cap=100000 if quick else 1000000))
        # two calls per caller
        out.append(dict(topo='single', capacity=1, calls=[[[0, 10, False], [1, 10, False]], [[2, 10, False], [3, 10, True]]],
                        oracles=O, bound=1 if quick else 2, cap=100000 if quick else 1000000))
        # failures and a gated (slow) worker: slots must come back
        out.append(dict(topo='single', capacity=1, gated=['A'], fail={'A': [1]},
                        calls=[[[0, 10, False]], [[1, 10, False]], [[2, 10, False]]],
                        oracles=O, bound=1 if quick else 2, cap=100000 if quick else 1000000))
        # a stream consumer that stops early next to a caller
        out.append(dict(topo='single', capacity=2, calls=[[[10, 10, False]]], stream=dict(xs=[0, 1, 2, 3], stop_after=1),
                        oracles=O, bound=1 if quick else 2, cap=100000 if quick else 1000000))
        return out


class Deadlines(srv.SrvHarness):
    """timers fire in deadline order when nothing else can run: a non-backpressured call never waits longer than its
    timeout (elapsed virtual time is asserted); slots come back after timeouts"""
    name = 'deadlines'
    opts = dict(max_points=6000, timers='free', max_timer_fires=200)

    def configs(self, tier):
        quick = tier == 'quick'
        O = ['backlog', 'shutdown', 'timing']
        return [
            dict(topo='single', capacity=1, gated=['A'], calls=[[[0, 5, False]], [[1, 2, False]]],
                 oracles=O, bound=2 if quick else 3, cap=100000 if quick else 1000000),
            dict(topo='single', capacity=1, gated=['A'], calls=[[[0, 5, False]], [[1, 2, True]]],
                 oracles=O, bound=2 if quick else 3, cap=100000 if quick else 1000000),
            dict(topo='single', capacity=1, gated=['A'], calls=[[[0, 5, False]], [[1, 2, False]], [[2, 3, False]]],
                 oracles=O, bound=1 if quick else 2, cap=100000 if quick else 1000000),
            # a slow worker (the environment holds each call for up to 1.5 virtual seconds): a waiter is woken, loses the
            # freed slot to a competitor, waits again - in total never longer than its own timeout
            dict(topo='single', capacity=1, gated=['A'], env_wait=True, env_wait_t=1.5,
                 calls=[[[0, 10, False]], [[1, 10, False]], [[2, 3, False]]],
                 oracles=O, bound=1 if quick else 2, cap=100000 if quick else 1000000),
            dict(topo='single', capacity=1, gated=['A'], env_wait=True, env_wait_t=1.0,
                 calls=[[[0, 10, False], [3, 10, False]], [[2, 2.5, False]], [[1, 10, False]]],
                 oracles=O, bound=1 if quick else 2, cap=100000 if quick else 1000000),
        ]


class DeadlineRaces(srv.SrvHarness):
    """a deadline may expire at ANY point (the other threads were slow): slots still come back, backlog bound holds.
    No elapsed-time assertions here (a starved thread legitimately observes a late clock)."""
    name = 'deadline_races'
    opts = dict(max_points=6000, timers='all', max_timer_fires=200, timer_window=50)

    def configs(self, tier):
        quick = tier == 'quick'
        O = ['backlog', 'shutdown']
        return [
            dict(topo='single', capacity=1, gated=['A'], calls=[[[0, 5, False]], [[1, 2, False]]],
                 oracles=O, bound=1 if quick else 2, cap=100000 if quick else 1000000),
            dict(topo='single', capacity=1, calls=[[[0, 5, False]], [[1, 2, False]], [[2, 2, True]]],
                 oracles=O, bound=1 if quick else 2, cap=100000 if quick else 1000000),
        ]


class AsyncOvershoot(srv.ASrvHarness):
    """the same races on AsyncServer (callers are tasks on a virtual event loop; the gather thread is a real thread)"""
    name = 'async_overshoot'

    def configs(self, tier):
        quick = tier == 'quick'
        O = ['backlog', 'shutdown']
        return [
            dict(topo='single', capacity=1, calls=[[[0, 10, False]], [[1, 10, False]], [[2, 10, False]]],
                 oracles=O, bound=2, cap=100000 if quick else 1000000),
            dict(topo='single', capacity=1, calls=[[[0, 10, True]], [[1, 10, False]], [[2, 10, True]]],
                 oracles=O, bound=1 if quick else 2, cap=100000 if quick else 1000000),
            dict(topo='single', capacity=1, gated=['A'], fail={'A': [1]}, calls=[[[0, 10, False]], [[1, 10, False]], [[2, 3, False]]],
                 oracles=O + ['timing'], bound=1 if quick else 2, cap=100000 if quick else 1000000),
            dict(topo='single', capacity=1, gated=['A'], env_wait=True, env_wait_t=1.5,
                 calls=[[[0, 10, False]], [[1, 10, False]], [[2, 3, False]]],
                 oracles=O + ['timing'], bound=1 if quick else 2, cap=100000 if quick else 1000000),
            dict(topo='single', capacity=1, gated=['A'], env_wait=True, env_wait_t=1.0,
                 calls=[[[0, 10, False], [3, 10, False]], [[2, 2.5, False]], [[1, 10, False]]],
                 oracles=O + ['timing'], bound=1 if quick else 2, cap=100000 if quick else 1000000),
        ]


HARNESSES = {'async_overshoot': AsyncOvershoot, 'overshoot': Overshoot, 'deadlines': Deadlines, 'deadline_races': DeadlineRaces}
PLAN = {'quick': ['overshoot', 'deadlines', 'deadline_races', 'async_overshoot'],
        'thorough': ['overshoot', 'deadlines', 'deadline_races', 'async_overshoot']}
