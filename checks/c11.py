"""C11  Server starts all-or-nothing and stops completely.

'startup'  real Server over thread-servlet trees {Thread(2 workers), Sequential(A, B), Ensemble(A, B), Switch(A, B)}; the worker
           (servlet, index) chosen by the configuration raises in __init__.  Oracle: __enter__ raises that error and no
           worker / helper thread is alive afterwards.
'cycles'   after a workload (successes, a failure, a timed-out call, a stream abandoned after k outputs, a batch worker) the
           server exits, is entered again, serves again and exits again.  Oracle: both exits return within the horizon with
           every worker and helper thread gone; the second round answers correctly.
'pstartup' / 'pcycles'  the same with ProcessServlets behind the simulated process boundary (simproc): worker processes are
           simulated processes, queues are pipes with a byte capacity (abandoned inputs larger than the pipe).
"""
from __future__ import annotations

from . import srv

PROPERTY = 'C11'
BIG = 1000


class Startup(srv.SrvHarness):
    name = 'startup'
    opts = dict(max_points=6000, timers='free', max_timer_fires=400)
    trace = dict()

    def setup(self):
        import mpservice.mpserver._servlet as SV
        from mc import sched
        codes = srv.server_codes()
        for f in (SV.ThreadServlet.start, SV.SequentialServlet.start, SV.EnsembleServlet.start, SV.SwitchServlet.start):
            codes += sched.all_codes(f)
        return codes

    def configs(self, tier):
        quick = tier == 'quick'
        O = ['startup', 'shutdown', 'answers']
        out = []
        for topo, fails in (('single', [['A', 0], ['A', 1]]), ('seq', [['A', 1], ['B', 0], ['B', 1]]),
                            ('ens', [['A', 1], ['B', 0]]), ('switch', [['B', 0], ['B', 1]])):
            for f in fails:
                out.append(dict(topo=topo, nworkers=2, capacity=2, init_fail=f, calls=[[[0, BIG, False]]], oracles=O,
                                bound=1 if quick else 2, cap=60000))
            out.append(dict(topo=topo, nworkers=2, capacity=2, calls=[[[0, BIG, False]]], oracles=O, bound=1, cap=60000))
        # three workers, the last one fails: TWO started siblings have to be stopped
        for topo, f in (('single', ['A', 2]), ('seq', ['B', 2]), ('ens', ['B', 2])):
            out.append(dict(topo=topo, nworkers=3, capacity=2, init_fail=f, calls=[[[0, BIG, False]]], oracles=O,
                            bound=1 if quick else 2, cap=60000))
        out.append(dict(topo='single', nworkers=3, capacity=2, calls=[[[0, BIG, False]]], oracles=O, bound=1, cap=60000))
        # a transient fault: enter fails twice, then the SAME server object is entered successfully and serves
        for topo, f in (('single', ['A', 1]), ('seq', ['B', 0]), ('ens', ['B', 1])):
            out.append(dict(topo=topo, nworkers=2, capacity=2, init_fail=f, init_fail_rounds=2, rounds=3, calls=[[[0, BIG, False]]],
                            oracles=O, bound=0 if quick else 1, cap=60000))
        return out


class Cycles(srv.SrvHarness):
    name = 'cycles'
    opts = dict(max_points=12000, timers='free', max_timer_fires=800)
    trace = dict()

    def configs(self, tier):
        quick = tier == 'quick'
        O = ['answers', 'shutdown']
        d = 1 if quick else 2
        cap = 60000 if quick else 600000
        out = [
            dict(topo='single', nworkers=2, capacity=2, rounds=2, calls=[[[0, BIG, False], [1, BIG, False]]], oracles=O, bound=d, cap=cap),
            dict(topo='seq', capacity=2, rounds=2, fail={'A': [1]}, calls=[[[0, BIG, False]], [[1, BIG, False]]], oracles=O, bound=d, cap=cap),
            dict(topo='ens', capacity=2, rounds=2, fail={'B': [1]}, fail_fast=True, calls=[[[0, BIG, False]], [[1, BIG, False]]],
                 oracles=O, bound=d, cap=cap),
            dict(topo='switch', capacity=2, rounds=2, calls=[[[0, BIG, False]], [[1, BIG, False]]], oracles=O, bound=d, cap=cap),
            dict(topo='batch', batch=2, capacity=3, rounds=2, calls=[[[0, BIG, False]], [[1, BIG, False]], [[2, BIG, False]]],
                 oracles=O, bound=d, cap=cap),
            # a timed-out call (worker gated, released late) and an abandoned stream
            dict(topo='single', capacity=2, rounds=2, gated=['A'], env_wait=True, env_wait_t=3.0,
                 calls=[[[0, 2, False]], [[1, BIG, False]]], oracles=O, bound=d, cap=cap),
            dict(topo='single', capacity=2, rounds=2, calls=[[[10, BIG, False]]], stream=dict(xs=[0, 1, 2, 3], stop_after=1),
                 oracles=O, bound=d, cap=cap),
            dict(topo='seq', capacity=3, rounds=2, calls=[], stream=dict(xs=[0, 1, 2, 3, 4], stop_after=2), oracles=O, bound=d, cap=cap),
            # a batching worker with requests of an abandoned stream still in flight when the server is left (the end marker
            # queues up right behind them)
            dict(topo='batch', batch=2, capacity=3, rounds=2, calls=[], stream=dict(xs=[0, 1, 2, 3], stop_after=1),
                 drain_before_exit=False, oracles=['shutdown'], bound=d, cap=cap),
            dict(topo='batch', batch=3, capacity=2, rounds=2, gated=['A'], calls=[], stream=dict(xs=[0, 1, 2], stop_after=1),
                 drain_before_exit=False, oracles=['shutdown'], bound=d, cap=cap),
            # the consumer breaks out of the stream and leaves the server with requests in flight; the suspended generator
            # is closed only afterwards (what `for ... in server.stream(...): break` inside `with server:` does)
            dict(topo='single', capacity=1, rounds=2, gated=['A'], calls=[], drain_before_exit=False,
                 stream=dict(xs=[0, 1, 2, 3, 4], stop_after=1, close='after_exit'), oracles=['shutdown'], bound=d, cap=cap),
            dict(topo='single', capacity=2, rounds=1, gated=['A'], calls=[], drain_before_exit=False,
                 stream=dict(xs=[0, 1, 2, 3, 4, 5, 6], stop_after=2, close='after_exit'), oracles=['shutdown'], bound=d, cap=cap),
        ]
        return out


class ACycles(srv.ASrvHarness):
    """the same for AsyncServer (callers and the stream consumer are tasks on a virtual event loop; the gather thread and the
    workers are real threads): a failed start, enter/exit cycles after a failure, a timed-out call, an abandoned stream -
    closed before the exit, or only afterwards"""
    name = 'acycles'

    def setup(self):
        import mpservice.mpserver._servlet as SV
        from mc import sched
        codes = super().setup()
        for f in (SV.ThreadServlet.start,):
            codes += sched.all_codes(f)
        return codes

    def configs(self, tier):
        quick = tier == 'quick'
        O = ['answers', 'shutdown']
        d = 1 if quick else 2
        cap = 60000 if quick else 600000
        return [
            dict(topo='single', nworkers=2, capacity=2, init_fail=['A', 1], calls=[[[0, BIG, False]]],
                 oracles=['startup', 'shutdown'], bound=d, cap=cap),
            dict(topo='single', nworkers=2, capacity=2, rounds=2, fail={'A': [1]}, calls=[[[0, BIG, False], [1, BIG, False]]],
                 oracles=O, bound=d, cap=cap),
            dict(topo='single', capacity=2, rounds=2, gated=['A'], env_wait=True, env_wait_t=3.0,
                 calls=[[[0, 2, False]], [[1, BIG, False]]], oracles=O, bound=d, cap=cap),
            dict(topo='single', capacity=2, rounds=2, calls=[[[10, BIG, False]]], stream=dict(xs=[0, 1, 2, 3], stop_after=1),
                 oracles=O, bound=d, cap=cap),
            dict(topo='single', capacity=1, rounds=2, gated=['A'], calls=[], drain_before_exit=False,
                 stream=dict(xs=[0, 1, 2, 3, 4], stop_after=1, close='after_exit'), oracles=['shutdown'], bound=d, cap=cap),
            dict(topo='batch', batch=2, capacity=3, rounds=2, calls=[], stream=dict(xs=[0, 1, 2, 3], stop_after=1),
                 drain_before_exit=False, oracles=['shutdown'], bound=d, cap=cap),
        ]


# ------------------------------------------------------------------ process servlets behind the simulated boundary
from mpservice.mpserver import Worker  # noqa: E402


class PWorker(Worker):
    """module-level (picklable) worker for ProcessServlet; runs in a simulated child process"""

    def __init__(self, *, tag, fail=(), init_fail_index=None, **kw):
        super().__init__(**kw)
        if init_fail_index is not None and init_fail_index == kw['worker_index']:
            raise srv.Boom('init', tag, kw['worker_index'])
        self.tag = tag
        self.fail = set(fail)

    def call(self, x):
        v = x
        while isinstance(v, tuple) and len(v) == 2 and v[0] in ('A', 'B'):
            v = v[1]
        ex = CURRENT[0]
        if ex is not None:
            ex.invocations.append((self.tag, x, ex._round))
            ex.state['ncalls'] += 1
            if self.tag in ex.cfg.get('gated', []):
                # (the simulated child runs in the checker's interpreter: the environment thread can gate it like a thread worker)
                from mc import sched
                s = sched.S()
                key = (self.tag, x)
                ex.waiting.append(key)
                if len(ex.waiting) > ex.metrics['waiting']:
                    ex.metrics['waiting'] = len(ex.waiting)
                s.block(lambda: key in ex.released or ex.state['stop'], None, on='call-gate')
        if v in self.fail:
            raise srv.Boom(self.tag, v)
        return (self.tag, x)


CURRENT = [None]


class PSrvExec(srv.SrvExec):
    def build_servlet(self):
        from mpservice.mpserver import EnsembleServlet, ProcessServlet, SequentialServlet, ThreadServlet
        from mc import simproc
        cfg = self.cfg
        CURRENT[0] = self
        simproc.world().pipe_capacity = cfg.get('pipe', 65536)
        nw = cfg.get('nworkers', 1)
        fail = cfg.get('fail', {})
        inf = cfg.get('init_fail') or [None, None]

        def P(tag):
            return ProcessServlet(PWorker, cpus=nw, tag=tag, fail=list(fail.get(tag, [])),
                                  init_fail_index=inf[1] if inf[0] == tag else None)

        def T(tag):
            return ThreadServlet(self.worker_cls(tag), num_threads=nw)

        kind = cfg['ptopo']
        if kind == 'P':
            return P('A')
        if kind == 'PT':
            return SequentialServlet(P('A'), T('B'))
        if kind == 'TP':
            return SequentialServlet(T('A'), P('B'))
        if kind == 'PP':
            return SequentialServlet(P('A'), P('B'))
        if kind == 'ensTP':
            return EnsembleServlet(T('A'), P('B'), fail_fast=cfg.get('fail_fast', True))
        raise ValueError(kind)

    def live(self):
        # simulated worker processes count as well: every thread of every simulated process must be gone
        from mc import sched
        s = sched.S()
        me = s.me()
        return sorted(sched.base_name(t.name) for t in s.threads
                      if t is not me and t.state != sched.FINISHED and t.name != 'env'
                      and not t.name.startswith('QueueFeederThread'))


class PHarness(srv.SrvHarness):
    exec_cls = PSrvExec
    opts = dict(max_points=12000, timers='free', max_timer_fires=800)

    def setup(self):
        from mc import sched, simproc
        simproc.install()
        import mpservice.mpserver._server as SRV
        import mpservice.mpserver._servlet as SV
        codes = srv.server_codes()
        for f in (SRV._enter_server, SRV.Server.__exit__, SV.ProcessServlet.start, SV.ProcessServlet.stop,
                  SV.SequentialServlet.start, SV.SequentialServlet.stop):
            codes += sched.all_codes(f)
        return codes


class PStartup(PHarness):
    name = 'pstartup'

    def configs(self, tier):
        quick = tier == 'quick'
        O = ['startup', 'shutdown', 'answers']
        out = []
        for ptopo, topo, fails in (('P', 'single', [['A', 0], ['A', 1]]), ('PT', 'seq', [['A', 1], ['B', 1]]),
                                   ('TP', 'seq', [['B', 0], ['B', 1]]), ('ensTP', 'ens', [['B', 1]])):
            for f in fails:
                out.append(dict(ptopo=ptopo, topo=topo, nworkers=2, capacity=2, init_fail=f, calls=[[[0, BIG, False]]],
                                oracles=O, bound=0 if quick else 1, cap=60000))
            out.append(dict(ptopo=ptopo, topo=topo, nworkers=2, capacity=2, calls=[[[0, BIG, False]]], oracles=O, bound=0 if quick else 1,
                            cap=60000))
        out.append(dict(ptopo='P', topo='single', nworkers=3, capacity=2, init_fail=['A', 2], calls=[[[0, BIG, False]]],
                        oracles=O, bound=0 if quick else 1, cap=60000))
        return out


class PCycles(PHarness):
    name = 'pcycles'

    def configs(self, tier):
        quick = tier == 'quick'
        O = ['answers', 'shutdown']
        d = 0 if quick else 1
        cap = 60000 if quick else 600000
        return [
            dict(ptopo='P', topo='single', nworkers=2, capacity=2, rounds=2, calls=[[[0, BIG, False], [1, BIG, False]]],
                 oracles=O, bound=1, cap=cap),
            dict(ptopo='PT', topo='seq', capacity=2, rounds=2, fail={'A': [1]}, calls=[[[0, BIG, False]], [[1, BIG, False]]],
                 oracles=O, bound=d, cap=cap),
            dict(ptopo='PP', topo='seq', capacity=2, rounds=2, fail={'B': [0]}, calls=[[[0, BIG, False]], [[1, BIG, False]]],
                 oracles=O, bound=d, cap=cap),
            dict(ptopo='ensTP', topo='ens', capacity=2, rounds=2, fail={'B': [1]}, calls=[[[0, BIG, False]], [[1, BIG, False]]],
                 oracles=O, bound=d, cap=cap),
            # abandoned stream whose remaining inputs exceed the (tiny) pipe between server and worker process
            dict(ptopo='P', topo='single', capacity=8, rounds=2, pipe=40, calls=[], stream=dict(xs=list(range(8)), stop_after=1),
                 oracles=O, bound=d, cap=cap, drain_before_exit=False),
            dict(ptopo='P', topo='single', capacity=8, rounds=2, pipe=40, calls=[], stream=dict(xs=list(range(8)), stop_after=1),
                 oracles=O, bound=d, cap=cap),
            # two process stages with work in flight at exit and a tiny pipe between them
            dict(ptopo='PP', topo='seq', capacity=8, rounds=2, pipe=40, calls=[], stream=dict(xs=list(range(8)), stop_after=1),
                 oracles=O, bound=d, cap=cap, drain_before_exit=False),
            dict(ptopo='PT', topo='seq', capacity=8, rounds=2, pipe=40, calls=[], stream=dict(xs=list(range(6)), stop_after=1),
                 oracles=O, bound=d, cap=cap, drain_before_exit=False),
            # two competing workers per process stage: one of them may see the end marker while its sibling is still working
            dict(ptopo='PP', topo='seq', nworkers=2, capacity=8, rounds=2, pipe=40, calls=[],
                 stream=dict(xs=list(range(8)), stop_after=1), oracles=O, bound=1, cap=cap, drain_before_exit=False),
            dict(ptopo='P', topo='single', nworkers=2, capacity=8, rounds=2, pipe=40, calls=[],
                 stream=dict(xs=list(range(8)), stop_after=1), oracles=O, bound=1, cap=cap, drain_before_exit=False),
            # the abandoned stream is still open when the server is left, and closed afterwards
            dict(ptopo='P', topo='single', capacity=2, rounds=2, calls=[], drain_before_exit=False,
                 stream=dict(xs=list(range(6)), stop_after=1, close='after_exit'), oracles=['shutdown'], bound=d, cap=cap),
        ]


HARNESSES = {'startup': Startup, 'cycles': Cycles, 'pstartup': PStartup, 'pcycles': PCycles, 'acycles': ACycles}
PLAN = {'quick': ['startup', 'cycles', 'acycles', 'pstartup', 'pcycles'],
        'thorough': ['startup', 'cycles', 'acycles', 'pstartup', 'pcycles']}
