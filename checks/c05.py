"""C05  Streams end cleanly on early stop or failure - no hang, no leak.

Harnesses drive the real Buffer / fifo_stream / Parmapper (and the async adapters on the virtual loop) with an
instrumented source, stop or fail them at every position, and explore all schedules up to the delay bound.
Oracle: the execution terminates (no deadlock, no livelock), the consumer saw exactly the outputs that precede the
first failure in stream order and then that failure once, and when the consuming loop / close() has returned every
helper thread the pipeline started has finished.
"""
from __future__ import annotations

import threading

from mc import sched
from mc.explore import Exec, Harness, default_verdict

PROPERTY = 'C05'


class Boom(Exception):
    pass


def live_threads():
    s = sched.S()
    me = s.me()
    return sorted(sched.base_name(t.name) for t in s.threads if t is not me and t.state != sched.FINISHED)


class StreamExec(Exec):
    """cfg: pipe, n, m/conc, ev: [kind, k]"""

    def __init__(self, cfg):
        self.cfg = cfg
        self.metrics = {}

    # --- source / functions
    def source(self):
        cfg = self.cfg
        kind, k = cfg['ev']
        n = cfg['n']

        gaps = cfg.get('gaps')

        def gen():
            import time
            for i in range(n):
                if gaps and gaps[i]:
                    time.sleep(gaps[i])     # a slow, bursty source (virtual time)
                if kind == 'src_raise' and i == k:
                    raise Boom('src', i)
                if kind == 'src_stop' and i == k:
                    from mpservice._common import StopRequested
                    raise StopRequested()
                if kind == 'break_src_raise' and i > k:
                    # the source fails right after the consumer has stopped
                    raise Boom('src-after-break', i)
                yield i
        return gen()

    def func(self, x):
        kind, k = self.cfg['ev']
        if kind == 'func_raise' and x == k:
            raise Boom('func', x)
        return x * 10

    def pre(self, x):
        kind, k = self.cfg['ev']
        if kind == 'pre_raise' and x == k:
            raise Boom('pre', x)
        return x

    def build(self):
        from mpservice.streamer import Stream
        cfg = self.cfg
        s = Stream(self.source())
        pipe = cfg['pipe']
        if pipe == 'buffer':
            s.buffer(cfg['m'])
            self.f = lambda x: x
        elif pipe == 'parmap':
            s.parmap(self.func, executor='thread', concurrency=cfg['conc'],
                     preprocessor=self.pre if cfg['ev'][0] == 'pre_raise' else None)
            self.f = lambda x: x * 10
        elif pipe == 'buffer_parmap':
            s.buffer(cfg['m']).parmap(self.func, executor='thread', concurrency=cfg['conc'])
            self.f = lambda x: x * 10
        elif pipe == 'parmap_buffer':
            s.parmap(self.func, executor='thread', concurrency=cfg['conc']).buffer(cfg['m'])
            self.f = lambda x: x * 10
        elif pipe == 'map_buffer':
            s.map(self.func).buffer(cfg['m'])
            self.f = lambda x: x * 10
        else:
            raise ValueError(pipe)
        return s

    def expected(self):
        cfg = self.cfg
        kind, k = cfg['ev']
        n = cfg['n']
        if kind in ('break', 'close', 'break_src_raise'):
            return [self.f(i) for i in range(min(k, n))], 'end'
        if kind in ('src_raise', 'func_raise', 'pre_raise'):
            if k < n:
                return [self.f(i) for i in range(k)], 'Boom'
            return [self.f(i) for i in range(n)], 'end'
        if kind == 'src_stop':
            if k < n:
                return [self.f(i) for i in range(k)], 'StopRequested'
            return [self.f(i) for i in range(n)], 'end'
        if kind == 'none':
            return [self.f(i) for i in range(n)], 'end'
        raise ValueError(kind)

    def body(self):
        from mpservice._common import StopRequested
        cfg = self.cfg
        kind, k = cfg['ev']
        out = []
        end = None
        s = self.build()
        it = iter(s)
        try:
            if kind in ('break', 'break_src_raise'):
                if k > 0:
                    for y in it:
                        out.append(y)
                        if len(out) >= k:
                            break
                else:
                    # stop before taking anything: the iterator was started by the first next() only
                    pass
                end = 'end'
            elif kind == 'close':
                for _ in range(k):
                    out.append(next(it))
                end = 'end'
            else:
                for y in it:
                    out.append(y)
                end = 'end'
        except Boom:
            end = 'Boom'
        except StopRequested:
            end = 'StopRequested'
        except StopIteration:
            end = 'end'
        # close explicitly (what leaving the for loop / dropping the iterator does through refcounting)
        close = getattr(it, 'close', None)
        if close is not None:
            close()
        del it
        return out, end, live_threads()

    def verdict(self, r):
        v = default_verdict(r)
        if v:
            return v
        out, end, alive = r.value
        eo, ee = self.expected()
        if out != eo or end != ee:
            return (f'wrong-output:{self.cfg["ev"][0]}', f'got {out} {end}, expected {eo} {ee}')
        if alive:
            return ('thread-leak:' + ','.join(alive), f'threads still running after close: {alive}')
        if r.thread_excs:
            return ('thread-exc:' + ','.join(sorted(f'{n}:{t}' for n, t, _ in r.thread_excs)), repr(r.thread_excs))
        return None


class BufferH(Harness):
    name = 'buffer'
    opts = dict(max_points=3000, timers='free')

    def setup(self):
        from mpservice._queues import SingleLane
        from mpservice.streamer import _streamer as S
        codes = []
        for f in (S.Buffer._start, S.Buffer._run_worker, S.Buffer._finalize, S.Buffer.__iter__,
                  SingleLane.put, SingleLane.get):
            codes += sched.all_codes(f)
        return codes

    def configs(self, tier):
        out = []
        d = 2 if tier == 'quick' else 3
        for m in (1, 2, 3):
            n = m + 3
            evs = [['none', 0]]
            for k in (1, 2, n):
                evs.append(['break', k])
            for k in (0, 1, 2, n):
                evs.append(['src_raise', k])
            for k in (1, 2):
                evs.append(['close', k])
                evs.append(['break_src_raise', k])
                evs.append(['src_stop', k])
            for ev in evs:
                out.append(dict(pipe='buffer', m=m, n=n, ev=ev, bound=d, cap=60000 if tier == 'quick' else 400000))
        # slow / bursty sources: the consumer sits idle on an empty buffer while the source pauses (timer deviations on)
        for m, gaps in ((1, [0, 0.1]), (2, [0.1, 0, 0.1]), (2, [0, 0.2, 0.05])):
            out.append(dict(pipe='buffer', m=m, n=len(gaps), ev=['none', 0], gaps=gaps, bound=1 if tier == 'quick' else 2,
                            cap=60000 if tier == 'quick' else 400000, sched_opts=dict(timers='all', timer_window=50)))
        return out

    def new(self, cfg):
        return StreamExec(cfg)


class ParmapH(Harness):
    name = 'parmap'
    opts = dict(max_points=5000, timers='free')

    def setup(self):
        from mpservice._queues import SingleLane
        from mpservice.streamer import _streamer as S
        codes = []
        for f in (S.fifo_stream, S.Parmapper.__iter__, SingleLane.put, SingleLane.get):
            codes += sched.all_codes(f)
        return codes

    def configs(self, tier):
        out = []
        for conc in (1, 2):
            n = 2 * conc + 3
            evs = [['none', 0]]
            for k in (1, 2, n):
                evs.append(['break', k])
            for k in (0, 1, 3):
                evs.append(['src_raise', k])
                evs.append(['func_raise', k])
                evs.append(['pre_raise', k])
            evs.append(['break_src_raise', 1])
            evs.append(['src_stop', 1])
            for ev in evs:
                out.append(dict(pipe='parmap', conc=conc, n=n, ev=ev, bound=1 if tier == 'quick' else 2,
                                cap=30000 if tier == 'quick' else 300000))
        return out

    def new(self, cfg):
        return StreamExec(cfg)


class AsyncExec(StreamExec):
    """Async adapters: SyncIter (sync consumer of an async source), AsyncBuffer / AsyncIter (async consumer)."""

    def asource(self):
        cfg = self.cfg
        kind, k = cfg['ev']
        n = cfg['n']

        async def agen():
            for i in range(n):
                if kind == 'src_raise' and i == k:
                    raise Boom('src', i)
                if kind == 'break_src_raise' and i > k:
                    raise Boom('src-after-break', i)
                yield i
        return agen()

    def body(self):
        import asyncio
        from mpservice.streamer import _streamer_async as A
        cfg = self.cfg
        kind, k = cfg['ev']
        pipe = cfg['pipe']
        self.f = lambda x: x
        if pipe == 'synciter':
            out = []
            end = None
            it = iter(A.SyncIter(self.asource()))
            try:
                for y in it:
                    out.append(y)
                    if kind in ('break', 'break_src_raise') and len(out) >= k:
                        break
                end = 'end'
            except Boom:
                end = 'Boom'
            it.close()
            del it
            return out, end, live_threads()

        if pipe == 'parmapper_async':
            # sync consumer, async worker function on a loop thread (Stream.parmap with a coroutine function)
            from mpservice.streamer import Stream

            async def awork(x):
                await asyncio.sleep(0.01 * ((x * 2) % 3))
                if kind == 'func_raise' and x == k:
                    raise Boom('func', x)
                return x * 10

            self.f = lambda x: x * 10
            out = []
            end = None
            it = iter(Stream(self.source()).parmap(awork, concurrency=cfg.get('conc', 2)))
            try:
                for y in it:
                    out.append(y)
                    if kind in ('break', 'break_src_raise') and len(out) >= k:
                        break
                end = 'end'
            except Boom:
                end = 'Boom'
            it.close()
            del it
            return out, end, live_threads()

        async def main():
            out = []
            end = None
            if pipe == 'async_parmapper':
                # async consumer, sync worker function in a thread pool (AsyncStream.parmap with a plain function)
                def work(x):
                    if kind == 'func_raise' and x == k:
                        raise Boom('func', x)
                    return x * 10
                self.f = lambda x: x * 10
                ait = A.AsyncStream(self.asource()).parmap(work, executor='thread', concurrency=cfg.get('conc', 2)).__aiter__()
            elif pipe == 'asyncbuffer':
                ait = A.AsyncBuffer(self.asource(), maxsize=cfg['m']).__aiter__()
            elif pipe == 'asynciter':
                ait = A.AsyncIter(self.source()).__aiter__()
            else:
                raise ValueError(pipe)
            try:
                async for y in ait:
                    out.append(y)
                    if kind in ('break', 'break_src_raise') and len(out) >= k:
                        break
                end = 'end'
            except Boom:
                end = 'Boom'
            await ait.aclose()
            return out, end

        out, end = asyncio.run(main())
        return out, end, live_threads()


class AsyncAdaptersH(Harness):
    name = 'async_adapters'
    opts = dict(max_points=4000, timers='free', max_timer_fires=400)

    def setup(self):
        from mc import vloop
        vloop.install()
        from mpservice._queues import SingleLane
        from mpservice.streamer import _streamer_async as A
        codes = []
        from mpservice.streamer import _streamer as S
        for f in (A.SyncIter._worker, A.SyncIter._start, A.SyncIter._finalize, A.SyncIter.__iter__,
                  A.AsyncBuffer._start, A.AsyncBuffer._run_worker, A.AsyncBuffer._finalize, A.AsyncBuffer.__aiter__,
                  S.ParmapperAsync.__iter__, A.AsyncParmapper.__aiter__, S.fifo_stream, S.async_fifo_stream,
                  SingleLane.put, SingleLane.get):
            codes += sched.all_codes(f)
        return codes

    def configs(self, tier):
        out = []
        d = 1 if tier == 'quick' else 2
        cap = 20000 if tier == 'quick' else 200000
        for n in (2, 5):
            evs = [['none', 0], ['break', 1], ['break', 2], ['src_raise', 0], ['src_raise', 1], ['src_raise', 3],
                   ['break_src_raise', 1]]
            for ev in evs:
                if ev[1] > n:
                    continue
                out.append(dict(pipe='synciter', n=n, ev=ev, bound=d, cap=cap))
                if n == 5:
                    out.append(dict(pipe='asynciter', n=n, ev=ev, bound=d, cap=cap))
        for m in (1, 2, 3):
            n = m + 3
            for ev in (['none', 0], ['break', 1], ['break', 2], ['src_raise', 0], ['src_raise', 2],
                       ['break_src_raise', 1], ['break_src_raise', 2]):
                out.append(dict(pipe='asyncbuffer', m=m, n=n, ev=ev, bound=d, cap=cap))
        # the parmap hybrids: early stop and failures must also leave no thread / executor behind
        for pipe in ('parmapper_async', 'async_parmapper'):
            for conc in (1, 2):
                for ev in (['none', 0], ['break', 1], ['break', 2], ['func_raise', 0], ['func_raise', 2], ['src_raise', 1]):
                    out.append(dict(pipe=pipe, conc=conc, n=2 * conc + 3, ev=ev, bound=d, cap=cap,
                                    sched_opts=dict(max_points=20000, max_timer_fires=3000)))
        return out

    def new(self, cfg):
        return AsyncExec(cfg)


class FifoStopExec(Exec):
    """fifo_stream used directly (as Server.stream does) with small capacities; futures are resolved by the function itself"""

    def __init__(self, cfg):
        self.cfg = cfg

    def body(self):
        import concurrent.futures
        from mpservice.streamer._streamer import fifo_stream
        cfg = self.cfg
        kind, k = cfg['ev']

        def src():
            for i in range(cfg['n']):
                if kind == 'src_raise' and i == k:
                    raise Boom('src', i)
                yield i

        def func(x):
            fut = concurrent.futures.Future()
            if kind == 'func_raise' and x == k:
                fut.set_exception(Boom('func', x))
            else:
                fut.set_result(x * 10)
            return fut

        out = []
        end = None
        it = fifo_stream(src(), func, capacity=cfg['capacity'])
        try:
            for y in it:
                out.append(y)
                if kind == 'break' and len(out) >= k:
                    break
            end = 'end'
        except Boom:
            end = 'Boom'
        it.close()
        del it
        return out, end, live_threads()

    def verdict(self, r):
        v = default_verdict(r)
        if v:
            return v
        cfg = self.cfg
        kind, k = cfg['ev']
        out, end, alive = r.value
        m = min(k, cfg['n']) if kind != 'none' else cfg['n']
        eo = [i * 10 for i in range(m)]
        ee = 'Boom' if kind in ('src_raise', 'func_raise') and k < cfg['n'] else 'end'
        if out != eo or end != ee:
            return (f'wrong-output:{kind}', f'got {out} {end}, expected {eo} {ee}')
        if alive:
            return ('thread-leak:' + ','.join(alive), f'threads still running after close: {alive}')
        return None


class FifoStopH(Harness):
    name = 'fifo_stop'
    opts = dict(max_points=4000, timers='free')

    def setup(self):
        from mpservice._queues import SingleLane
        from mpservice.streamer import _streamer as S
        codes = []
        for f in (S.fifo_stream, SingleLane.put, SingleLane.get):
            codes += sched.all_codes(f)
        return codes

    def configs(self, tier):
        out = []
        d = 2 if tier == 'quick' else 3
        for capacity in (1, 2):
            n = capacity + 4
            for ev in (['none', 0], ['break', 1], ['break', 2], ['func_raise', 0], ['func_raise', 1], ['func_raise', 2],
                       ['src_raise', 1], ['src_raise', 3]):
                out.append(dict(capacity=capacity, n=n, ev=ev, bound=d if capacity == 1 else d - 1,
                                cap=60000 if tier == 'quick' else 600000))
        return out

    def new(self, cfg):
        return FifoStopExec(cfg)


HARNESSES = {'buffer': BufferH, 'parmap': ParmapH, 'async_adapters': AsyncAdaptersH, 'fifo_stop': FifoStopH}
PLAN = {'quick': ['buffer', 'parmap', 'async_adapters', 'fifo_stop'], 'thorough': ['buffer', 'parmap', 'async_adapters', 'fifo_stop']}


def twins(tier, pool, stats):
    """conformance: Stream.parmap with executor='process' on real worker processes (early stop and failure: close() returns, no worker process left)"""
    import os
    import subprocess
    from mc.explore import PY, REPO, VERIF
    env = dict(os.environ, PYTHONPATH=os.path.join(REPO, 'src'))
    try:
        r = subprocess.run([PY, os.path.join(VERIF, 'checks', 'twins', 'c01_proc.py'), 'stop'], capture_output=True, text=True,
                           timeout=300, env=env)
        ok = r.returncode == 0
        detail = (r.stdout + r.stderr)[-600:]
    except subprocess.TimeoutExpired:
        ok = False
        detail = 'watchdog: the real-process parmap twin did not finish within 300 s'
    if not ok:
        stats[0].violations.setdefault('process-executor-twin', dict(count=1, choices=[], no_replay=True,
                                                                     detail=f'real worker processes: {detail}'))
        return 0
    return int(r.stdout.split()[-1])
