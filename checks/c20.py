"""C20  Child-process log records all reach the parent, once and in order.

schedex + simproc: the real SpawnProcess.start / run / _collect_result / _run_logger / join / _finalize run with the child
side as simulated threads behind the simulated process boundary (pickling pipes with a byte capacity, multiprocessing.Queue
with per-process feeder threads joined at process exit, one logging hierarchy per simulated process).
The child logs N records (the last one immediately before returning / raising / sys.exit(2)), pipe capacity K in
{1 record, 2 records, 64 KiB}.  Oracle: the handler on the parent's root logger received exactly the emitted records at or
above the parent's level, once each, in emission order; join()/result() return; the exit code is as expected; no simulated
thread is left after the process object has been finalized.
Conformance twins (real spawned children, free running): 4 / 300 x 100 B / 50 x 2 kB records with a watchdog.
"""
from __future__ import annotations

import gc
import logging
import sys

from mc import sched, simproc
from mc.explore import Exec, Harness, default_verdict

PROPERTY = 'C20'


def emit(n, how, pad, pause=0):
    lg = simproc.PROCLOG.getLogger('child.mod')
    lg.debug('below the parent level')
    for i in range(n):
        if pause and i == n - 1:
            import time
            time.sleep(pause)       # the child is silent for a while (virtual seconds) before its last record
        lg.warning('rec %d %s', i, 'x' * pad)
    if how == 'raise':
        raise ValueError('child failed', n)
    if how == 'exit2':
        sys.exit(2)
    return n


class LogExec(Exec):
    def __init__(self, cfg):
        self.cfg = cfg

    def body(self):
        from mpservice.multiprocessing import Process
        cfg = self.cfg
        s = sched.S()
        w = simproc.world()
        K = cfg['K']
        w.pipe_capacity = 65536 if K == 0 else (1 if K == 1 else 700 * K)
        got = []

        slow = cfg.get('slow_handler', 0)

        class H(logging.Handler):
            def emit(self, record):
                if slow:
                    import time
                    time.sleep(slow)        # a slow parent-side handler (virtual seconds per record)
                got.append(record.getMessage())

        root = simproc.PROCLOG.getLogger()
        root.addHandler(H())
        root.setLevel(logging.INFO)
        p = Process(target=emit, args=(cfg['n'], cfg['how'], 0, cfg.get('pause', 0)))
        p.start()
        outcome = None
        try:
            if cfg.get('access', 'result') == 'result':
                outcome = ('value', p.result())
            else:
                p.join()
                outcome = ('joined', None)
        except ValueError as e:
            outcome = ('ValueError', e.args)
        except SystemExit as e:
            outcome = ('SystemExit', e.code)
        code = p.exitcode
        del p
        gc.collect()
        me = s.me()

        def others():
            return [t for t in s.threads if t is not me and t.state != sched.FINISHED and not t.name.startswith('QueueFeederThread')]
        # the finalizer ends the log stream but (since 783c440) does not wait for the reader thread, which ends by itself on
        # the end marker: give it until nothing else can run
        s.block(lambda: not others(), 400.0, on='settle')
        # (the idle daemon feeder thread of the parent's end of the queue belongs to the boundary model: in CPython it
        # is told to stop when the queue object is collected)
        alive = sorted(sched.base_name(t.name) for t in s.threads if t is not me and t.state != sched.FINISHED
                       and not t.name.startswith('QueueFeederThread'))
        return outcome, list(got), code, alive

    def verdict(self, r):
        v = default_verdict(r)
        if v:
            return v
        cfg = self.cfg
        outcome, got, code, alive = r.value
        n, how = cfg['n'], cfg['how']
        exp = ['rec %d ' % i for i in range(n)]
        want_outcome = {'return': ('value', n) if cfg.get('access', 'result') == 'result' else ('joined', None),
                        'raise': ('ValueError', ('child failed', n)), 'exit2': ('SystemExit', 2)}[how]
        if outcome != want_outcome:
            return ('wrong-outcome', f'{outcome} instead of {want_outcome}')
        if code != {'return': 0, 'raise': 1, 'exit2': 2}[how]:
            return ('wrong-exitcode', f'exitcode {code}')
        if got != exp:
            if len(got) < len(exp) and got == exp[:len(got)]:
                return ('records-lost', f'{len(got)} of {n} records handled: {got}')
            if sorted(got) == sorted(exp):
                return ('records-reordered', f'{got}')
            return ('records-wrong', f'handled {got}, emitted {exp}')
        if alive:
            return ('thread-leak:' + ','.join(alive), f'threads alive after the process object was finalized: {alive}')
        return None


class LogH(Harness):
    name = 'logging'
    opts = dict(max_points=6000, timers='free', max_timer_fires=400)

    def setup(self):
        simproc.install()
        import mpservice.multiprocessing.context as ctxmod
        P = ctxmod.SpawnProcess
        codes = []
        for f in (P.start, P.run, P._collect_result, P._run_logger, P.join, P._finalize, P.result):
            codes += sched.all_codes(f)
        return codes

    def configs(self, tier):
        quick = tier == 'quick'
        out = []
        for n in (0, 1, 2, 3, 5):
            for K in (1, 2, 0):
                for how in ('return', 'raise', 'exit2'):
                    if how != 'return' and not (n in (1, 3) and K in (1, 0)):
                        continue
                    if quick:
                        d = 2 if n <= 1 else 1
                    else:
                        d = 2
                    out.append(dict(n=n, K=K, how=how, bound=d, cap=60000 if quick else 600000))
        out.append(dict(n=2, K=0, how='return', access='join', bound=1 if quick else 2, cap=60000))
        # a slow handler in the parent: the child is still flushing seconds after its result has arrived
        out.append(dict(n=5, K=1, how='return', slow_handler=1.0, bound=1 if quick else 2, cap=60000))
        out.append(dict(n=3, K=2, how='raise', slow_handler=1.5, bound=1 if quick else 2, cap=60000))
        # a child that is silent for a while and then logs and exits at once: a parent-side reader that polls (whatever its
        # interval: its timeouts may expire at any point here) must not conclude "pipe empty, child gone" in between
        for pause in (1.0, 3.0):
            out.append(dict(n=2, K=0, how='return', pause=pause, bound=1 if quick else 2, cap=60000))
        out.append(dict(n=2, K=0, how='return', pause=3.0, bound=2, cap=100000 if quick else 600000,
                        sched_opts=dict(timers='all', timer_window=10)))
        # a burst far beyond anything a bounded queue or buffer in between could hold
        out.append(dict(n=1500, K=0, how='return', bound=0, cap=10, sched_opts=dict(max_points=400000, max_timer_fires=100000)))
        return out

    def new(self, cfg):
        return LogExec(cfg)


def twins(tier, pool, stats):
    """conformance: real spawned children; the observed outcome must be the (single) outcome the exploration produced:
    every record handled in order, result returned.  A hang (watchdog) or a mismatch is reported as a violation."""
    import os
    import subprocess
    from mc.explore import PY, REPO, VERIF
    n_ok = 0
    env = dict(os.environ, PYTHONPATH=os.path.join(REPO, 'src'))
    for n, size in ((4, 10), (300, 100), (50, 2000)):
        try:
            r = subprocess.run([PY, os.path.join(VERIF, 'checks', 'twins', 'c20_real.py'), str(n), str(size)],
                               capture_output=True, text=True, timeout=60, env=env)
            ok = r.returncode == 0
            detail = (r.stdout + r.stderr)[-300:]
        except subprocess.TimeoutExpired:
            ok = False
            detail = 'watchdog: the real child / join did not finish within 60 s'
        if ok:
            n_ok += 1
        else:
            stats[0].violations.setdefault(f'real-process-twin:{n}x{size}',
                                           dict(count=1, choices=[], no_replay=True, detail=f'real child with {n} records of {size} B: {detail}'))
    return n_ok


HARNESSES = {'logging': LogH}
PLAN = {'quick': ['logging'], 'thorough': ['logging']}
