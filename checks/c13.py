"""C13  Hosted objects live exactly as long as some proxy refers to them.

histex: breadth-first search over operation histories on REAL processes: one real mpservice ServerProcess, the driver and two
real agent processes per group (4 groups work in parallel).  The reference model is the multiset of holders of the hosted
object X: proxies in the driver / agent 1 / agent 2, pickles in transit, elements of a hosted container C.

Alphabet: pickle(P) (a process pickles one of its proxies: the pickle is "in transit"), unpickle(P) (once), drop(P), store (the
driver appends a proxy of X to the hosted list C), take (C.pop() -> proxy back in the driver), mget (the hosted method hands out another managed() proxy of the same
value), clear (del C[:] inside the
server), spawn (driver starts a short-lived child process with the proxy as argument; child uses it and exits), exit (agent 2
exits while holding proxies; it is restarted for the next history), for X in {managed list, shared-memory MemoryBlock, value
returned by a hosted method through managed(), managed list whose container C is hosted by a SECOND manager ('xlist': a proxy
of X then lives inside another server process, whose own `get_server()` is not X's server)}.
States with equal holder multisets are merged (counts capped at 2 per place); every TRANSITION is executed against the real
server by replaying the history on fresh hosted objects, and after its last step the oracle is checked: after gc.collect() in
every process including the server, debug_info lists X iff the model has holders, with exactly that count; every live proxy is
usable; /dev/shm/<name> exists iff the block has holders; and when everything is dropped the server hosts nothing.
"""
from __future__ import annotations

import collections
import gc
import itertools
import json
import os
import sys
import time

PROPERTY = 'C13'
PLACES = ('D', 'A1', 'A2')
CAPN = 2
HANG_S = 60


# ------------------------------------------------------------------ things registered on the manager (module level)
class GcHelper:
    def collect(self):
        import gc as _gc
        _gc.collect()
        _gc.collect()
        return True


class Holder:
    """hosted custom object whose method returns managed values"""

    def __init__(self):
        self.inner = [1, 2, 3]

    def get_inner(self):
        from mpservice.multiprocessing.server_process import managed_list
        return managed_list(self.inner)


def register():
    from mpservice.multiprocessing.server_process import ServerProcess
    if 'GcHelper' not in ServerProcess._registry:
        ServerProcess.register('GcHelper', GcHelper)
        ServerProcess.register('Holder', Holder)


def child_uses_proxy(p, kind):
    if kind == 'block':
        assert p.size >= 16
        p.buf[0] = 7
    else:
        assert len(p) == 3


# ------------------------------------------------------------------ model
State = collections.namedtuple('State', 'D A1 A2 T S spawned exited cgone')
INIT = State(1, 0, 0, 0, 0, False, False, False)


def total(s):
    return s.D + s.A1 + s.A2 + s.T + s.S


def enabled(s, kind='list'):
    ops = []
    if kind == 'managed' and s.D < CAPN:
        ops.append(('mget',))      # the hosted method hands out another managed() proxy of the SAME hosted value
    for P in PLACES:
        n = getattr(s, P)
        alive = not (P == 'A2' and s.exited)
        if not alive:
            continue
        if n > 0 and s.T < CAPN:
            ops.append(('pickle', P))
        if s.T > 0 and n < CAPN:
            ops.append(('unpickle', P))
        if n > 0:
            ops.append(('drop', P))
    if s.D > 0 and s.S < CAPN and not s.cgone:
        ops.append(('store',))
    if s.S > 0 and s.D < CAPN:
        ops.append(('take',))
    if s.S > 0:
        ops.append(('clear',))
        ops.append(('dropc',))     # the last proxy of the container goes while it still holds proxies of X (nested destruction)
    if s.D > 0 and not s.spawned:
        ops.append(('spawn',))
        ops.append(('spawnmove',))  # the driver gives its proxy away to the child: nothing but the child's argument refers to X
    if not s.exited:
        ops.append(('exit',))
    return ops


def step(s, op):
    d = s._asdict()
    k = op[0]
    if k == 'pickle':
        d['T'] += 1
    elif k == 'unpickle':
        d['T'] -= 1
        d[op[1]] += 1
    elif k == 'drop':
        d[op[1]] -= 1
    elif k == 'store':
        d['S'] += 1
    elif k == 'take':
        d['S'] -= 1
        d['D'] += 1
    elif k == 'mget':
        d['D'] += 1
    elif k == 'clear':
        d['S'] = 0
    elif k == 'spawn':
        d['spawned'] = True
    elif k == 'spawnmove':
        d['spawned'] = True
        d['D'] -= 1
    elif k == 'dropc':
        d['S'] = 0
        d['cgone'] = True
    elif k == 'exit':
        d['A2'] = 0
        d['exited'] = True
    return State(**d)


def must(r):
    if r[0] != 'value':
        raise RuntimeError(f'harness operation failed: {r}')
    return r[1]


# ------------------------------------------------------------------ a group of real processes
class Group:
    def __init__(self):
        from mc import histex
        from mpservice.multiprocessing.server_process import ServerProcess
        register()
        self.manager = ServerProcess()
        self.manager.start()
        self.gch = self.manager.GcHelper()
        # a second manager: kind 'xlist' keeps the container in it, so a proxy of X lives inside ANOTHER server process
        self.manager2 = ServerProcess()
        self.manager2.start()
        self.gch2 = self.manager2.GcHelper()
        self.agents = {'D': histex.LocalAgent(), 'A1': histex.Agent('agent1'), 'A2': histex.Agent('agent2')}
        self.seq = 0
        self.rpcs = 0

    def close(self):
        for a in self.agents.values():
            try:
                a.close()
            except Exception:
                pass
        del self.gch, self.gch2
        self.manager2.shutdown()
        self.manager.shutdown()

    def debug(self):
        return {e['id']: e['refcount:'] for e in self.manager._debug_info()}

    def collect_all(self):
        for a in self.agents.values():
            if getattr(a, 'proc', None) is None or a.proc.is_alive():
                try:
                    a.do('gc')
                except Exception:
                    pass
        self.gch2.collect()
        self.gch.collect()

    def run_history(self, kind, history):
        """Replay `history` on fresh hosted objects; check the oracle after the last step and after dropping everything.
        -> None | (signature, detail)"""
        from mc import histex
        D = self.agents['D']
        m = self.manager
        base = set(self.debug())
        if kind in ('list', 'xlist'):
            x = m.list([1, 2, 3])
        elif kind == 'block':
            x = m.MemoryBlock(16)
        elif kind == 'managed':
            holder = m.Holder()
            x = holder.get_inner()
        else:
            raise ValueError(kind)
        xid = x._id
        shm = '/dev/shm/' + x.name.lstrip('/') if kind == 'block' else None
        c = (self.manager2 if kind == 'xlist' else m).list()
        cid = c._id
        names = {P: [] for P in PLACES}
        D.handles['x0'] = x
        D.handles['c'] = c
        names['D'].append('x0')
        del x, c
        transit = []
        s = INIT
        try:
            for i, op in enumerate(history):
                k = op[0]
                if k == 'pickle':
                    P = op[1]
                    transit.append(self.agents[P].do('pickle', names[P][-1]))
                elif k == 'unpickle':
                    P = op[1]
                    self.seq += 1
                    nm = f'x{self.seq}'
                    self.agents[P].do('unpickle', nm, transit.pop(0))
                    names[P].append(nm)
                elif k == 'drop':
                    P = op[1]
                    self.agents[P].do('drop', names[P].pop())
                elif k == 'store':
                    D.do('store', 'c', names['D'][-1])
                elif k == 'take':
                    self.seq += 1
                    nm = f'x{self.seq}'
                    D.do('callget', 'c', 'pop', (), nm)
                    names['D'].append(nm)
                elif k == 'clear':
                    must(D.do('call', 'c', '__delitem__', (slice(None),)))
                elif k == 'mget':
                    self.seq += 1
                    nm = f'x{self.seq}'
                    D.handles[nm] = holder.get_inner()
                    names['D'].append(nm)
                elif k == 'spawn':
                    from mpservice.multiprocessing import Process
                    p = Process(target=child_uses_proxy, args=(D.handles[names['D'][-1]], kind))
                    p.start()
                    try:
                        p.join(60)
                    except Exception as e:     # mpservice's join re-raises what the child raised
                        return ('spawned-child-failed', f'child raised {e!r} in {history[:i + 1]}')
                    if p.exitcode != 0:
                        return ('spawned-child-failed', f'child exit code {p.exitcode} in {history[:i + 1]}')
                    del p
                elif k == 'spawnmove':
                    from mpservice.multiprocessing import Process
                    px = D.handles.pop(names['D'].pop())
                    p = Process(target=child_uses_proxy, args=(px, kind))
                    del px
                    p.start()      # (multiprocessing's start() deletes the arguments from the Process object)
                    try:
                        p.join(60)
                    except Exception as e:     # mpservice's join re-raises what the child raised
                        return ('spawned-child-failed', f'child raised {e!r} in {history[:i + 1]}')
                    if p.exitcode != 0:
                        return ('spawned-child-failed', f'child exit code {p.exitcode} in {history[:i + 1]} (the driver '
                                'gave its proxy away to the child)')
                    del p
                elif k == 'dropc':
                    D.do('drop', 'c')
                elif k == 'exit':
                    self.agents['A2'].close()
                    names['A2'] = []
                s = step(s, op)
            v = self.oracle(kind, s, xid, shm, names, history)
            if v:
                return v
            # drop everything that is left: the server must host nothing of this history
            for P in PLACES:
                if not (P == 'A2' and s.exited):
                    for nm in names[P]:
                        self.agents[P].do('drop', nm)
            transit_left = len(transit)
            transit.clear()
            if not s.cgone:
                must(D.do('call', 'c', '__delitem__', (slice(None),)))
                D.do('drop', 'c')
            if kind == 'managed':
                holder = None
            self.collect_all()
            dbg = self.debug()
            left = {k: v for k, v in dbg.items() if k not in base}
            # pickles that were never unpickled keep their reference by design (nobody will ever decrement them)
            if xid in left and transit_left == 0:
                return ('leak-after-all-dropped', f'{kind}: after {history} and dropping every proxy the server still hosts X '
                        f'with refcount {left[xid]}')
            if kind == 'xlist':
                left2 = {e['id'] for e in self.manager2._debug_info()}
                if cid in left2:
                    return ('container-leak', f'{kind}: container still hosted by the second manager after {history}')
            elif cid in left:
                return ('container-leak', f'{kind}: container still hosted after {history}: {left}')
            if shm and transit_left == 0 and os.path.exists(shm):
                return ('shared-memory-leak', f'{shm} still exists after {history} and dropping every proxy')
            if transit_left and xid in left:
                # account for the abandoned pickles so that later histories start clean: one decref per pickle
                from multiprocessing.managers import dispatch
                for _ in range(transit_left):
                    conn = m._Client(m._address, authkey=m._authkey)
                    try:
                        dispatch(conn, None, 'decref', (xid,))
                    finally:
                        conn.close()
            return None
        finally:
            if s.exited:
                self.agents['A2'] = histex.Agent('agent2')
            for P in PLACES:
                try:
                    self.agents[P].do('dropall')
                except Exception:
                    pass

    def server_gc_elsewhere(self):
        """garbage collection inside the server, requested over a connection of its own (a short-lived thread), so that
        the driver thread's connection - and whatever its server-side handler thread still holds - is left alone"""
        import threading
        for g in (self.gch2, self.gch):
            t = threading.Thread(target=g.collect)
            t.start()
            t.join(60)

    def oracle(self, kind, s, xid, shm, names, history):
        if total(s) == 0:
            # nothing refers to X any more: it must be gone NOW, not when this client happens to send its next request
            for a in self.agents.values():
                if getattr(a, 'proc', None) is None or a.proc.is_alive():
                    try:
                        a.do('gc')
                    except Exception:
                        pass
            self.server_gc_elsewhere()
            dbg = self.debug()
            if xid in dbg:
                return ('destruction-delayed-until-next-request', f'{kind}: after {history} no proxy, pickle or container '
                        f'refers to X, yet the server still hosts it with refcount {dbg[xid]} (before the driver thread '
                        'sends its next request)')
            if shm is not None and os.path.exists(shm):
                return ('shared-memory-delayed-until-next-request', f'{shm} still exists after {history}')
        self.collect_all()
        dbg = self.debug()
        want = total(s)
        got = dbg.get(xid, 0)
        if got != want:
            kindsig = 'premature-destruction' if got < want else 'leaked-reference'
            return (f'{kindsig}:{history[-1][0]}', f'{kind}: after {history} the model has {want} holders {s}, '
                    f'server reports refcount {got}')
        for P in PLACES:
            if P == 'A2' and s.exited:
                continue
            for nm in names[P]:
                if kind == 'block':
                    r = self.agents[P].do('call', nm, '_callmethod', ('_name',))
                    ok = r[0] == 'value' and isinstance(r[1], str)
                else:
                    r = self.agents[P].do('call', nm, '__len__', ())
                    ok = r == ('value', 3)
                if not ok:
                    return ('proxy-unusable', f'{kind}: after {history} proxy {nm} in {P} gives {r}')
        if shm is not None:
            if (want > 0) != os.path.exists(shm):
                return ('shared-memory-' + ('gone' if want > 0 else 'leak'), f'{shm} exists={os.path.exists(shm)} with {want} holders '
                        f'after {history}')
        return None


def group_worker(conn):
    os.setsid()      # own process group: the master can remove this worker with its manager and agents if a history hangs
    g = Group()
    try:
        conn.send(('ready', None))
        while True:
            msg = conn.recv()
            if msg is None:
                break
            kind, histories = msg
            out = []
            for n, h in enumerate(histories):
                conn.send(('at', n))
                try:
                    out.append(g.run_history(kind, h))
                except Exception as e:
                    import traceback
                    out.append(('harness-error:' + type(e).__name__, f'{h}: {e}\n{traceback.format_exc()[-800:]}'))
            conn.send(('done', out, g.rpcs))
    finally:
        try:
            g.close()
        except Exception:
            pass


# ------------------------------------------------------------------ schedex: the server's bookkeeping under thread interleavings
class ServerRaceExec:
    """The REAL mpservice manager Server object, created in this process and never serving a socket: its create / incref /
    decref are called from simulated threads exactly as its per-connection handler threads call them (in-server proxies use
    this shortcut path themselves).  One thread drops the last proxy of a hosted value while another hosts the SAME value again
    through managed() (what a hosted method returning managed(self.inner) does for two clients); plus a plain incref / decref
    race on one object.  Oracle: whoever still holds a proxy finds the object hosted, with a reference count equal to the number
    of live proxies; once nobody does, the server hosts nothing."""

    monitor = None
    metrics = None

    def __init__(self, cfg):
        self.cfg = cfg

    def body(self):
        import multiprocessing
        from mc import sched
        import mpservice.multiprocessing.server_process as SP
        cfg = self.cfg
        s = sched.S()
        c13_register = register
        c13_register()
        server = SP.Server(SP.ServerProcess._registry, None, multiprocessing.current_process().authkey, 'pickle')
        cur = multiprocessing.current_process()
        cur._manager_server = server
        s.exit_hooks.append(lambda: (cur.__dict__.pop('_manager_server', None), server.listener.close()))
        inner = [1, 2, 3]
        held = {}
        errs = []

        def hand_out(name):
            try:
                held[name] = SP.managed_list(inner)
            except BaseException as e:
                if isinstance(e, sched.Abort):
                    raise
                errs.append((name, type(e).__name__, str(e)[:80]))

        def drop(name):
            try:
                p = held.pop(name)
                del p            # the finalizer of an in-server proxy calls server.decref in this thread
            except BaseException as e:
                if isinstance(e, sched.Abort):
                    raise
                errs.append((name, type(e).__name__, str(e)[:80]))

        hand_out('p0')
        ident = held['p0']._id
        ts = []
        for i, what in enumerate(cfg['threads']):
            if what == 'drop0':
                ts.append(threading.Thread(target=drop, args=('p0',), name=f't{i}-drop'))
            elif what == 'again':
                ts.append(threading.Thread(target=hand_out, args=(f'q{i}',), name=f't{i}-again'))
            elif what == 'again_drop':
                def both(n=f'q{i}'):
                    hand_out(n)
                    drop(n)
                ts.append(threading.Thread(target=both, name=f't{i}-againdrop'))
        for t in ts:
            t.start()
        for t in ts:
            t.join()
        live = len(held)
        hosted = ident in server.id_to_obj and server.id_to_obj[ident][0] is inner
        count = server.id_to_refcount.get(ident)
        usable = None
        if live:
            try:
                usable = len(next(iter(held.values()))) == 3
            except BaseException as e:
                if isinstance(e, sched.Abort):
                    raise
                usable = type(e).__name__      # (the message contains the id, a memory address)
        held.clear()
        left = len([k for k in server.id_to_obj if k != '0'])      # (ids are memory addresses: count them only)
        errs = [(n, t) for n, t, _ in errs]
        return dict(live=live, hosted=hosted, count=count, usable=usable, errs=errs, left_after_all_dropped=left)

    def observe(self, r):
        if r.error is not None:
            return r.error[0]
        if r.exc is not None:
            return 'exc:' + type(r.exc).__name__
        return repr(r.value)[:300]

    def verdict(self, r):
        from mc.explore import default_verdict
        v = default_verdict(r)
        if v:
            return v
        o = r.value
        if o['errs']:
            return ('server-call-raised:' + o['errs'][0][1], repr(o))
        if o['live']:
            if not o['hosted']:
                return ('premature-destruction:race', f'{o["live"]} live proxies but the value is no longer hosted: {o}')
            if o['count'] != o['live']:
                return ('refcount-differs-from-live-proxies', repr(o))
            if o['usable'] is not True:
                return ('proxy-unusable:race', repr(o))
        elif o['hosted'] or o['count']:
            return ('leaked-reference:race', repr(o))
        if o['left_after_all_dropped']:
            return ('leak-after-all-dropped:race', repr(o))
        return None


import threading  # noqa: E402

from mc.explore import Harness as _Harness  # noqa: E402


class ServerRaceH(_Harness):
    name = 'server_races'
    opts = dict(max_points=3000, timers='free', max_timer_fires=50)

    def setup(self):
        import multiprocessing.managers as MM
        from mc import sched
        import mpservice.multiprocessing.server_process as SP
        codes = []
        for f in (SP.Server.create, SP.Server.incref, SP.Server.decref, MM.Server.decref, MM.Server.incref):
            codes += sched.all_codes(f)
        return codes

    def configs(self, tier):
        d = 2 if tier == 'quick' else 3
        return [dict(threads=['drop0', 'again'], bound=d, cap=100000), dict(threads=['drop0', 'again_drop'], bound=d, cap=100000),
                dict(threads=['drop0', 'again', 'again_drop'], bound=d - 1, cap=100000),
                dict(threads=['again', 'again_drop'], bound=d, cap=100000)]

    def new(self, cfg):
        return ServerRaceExec(cfg)


HARNESSES = {'server_races': ServerRaceH}


# ------------------------------------------------------------------ the search (master)
def run(tier, seed, pool, t0):
    import multiprocessing

    from mc import report
    from mc.explore import ConfigStats
    from mc.runner import COMMON_ASSUMPTIONS
    depth = 5 if tier == 'quick' else 9
    ngroups = 6 if tier == 'quick' else 12
    ctx = multiprocessing.get_context('spawn')
    workers = []
    for _ in range(ngroups):
        a, b = ctx.Pipe()
        p = ctx.Process(target=group_worker, args=(b,), daemon=False)
        p.start()
        workers.append((p, a))
    for p, a in workers:
        if not a.poll(120):
            raise RuntimeError('manager group did not start')
        a.recv()
    stats = []
    hang = False
    try:
        for kind in ('list', 'block', 'managed', 'xlist') if not os.environ.get('VERIF_C13_ONLY_RACES') else ():
            cs = ConfigStats('histories', dict(object=kind, depth=depth if kind == 'list' else (depth - 2 if kind == 'xlist' else depth - 1)))
            cs.t0 = time.time()
            seen = {INIT: []}
            frontier = [INIT]
            maxd = cs.cfg['depth']
            transitions = 0
            for d in range(maxd):
                jobs = []   # (source state, op, history)
                for s in frontier:
                    for op in enabled(s, kind):
                        jobs.append((s, op, seen[s] + [list(op)]))
                # spread over the groups
                chunks = [jobs[i::ngroups] for i in range(ngroups)]
                for (p, a), ch in zip(workers, chunks):
                    a.send((kind, [h for _, _, h in ch]))
                results = []
                hung = False
                for (p, a), ch in zip(workers, chunks):
                    at = 0
                    while True:
                        if not a.poll(HANG_S):
                            # no progress for HANG_S seconds inside one history (they take well under a second): a hang
                            h = ch[at][2] if ch else []
                            cs.violations.setdefault('history-hangs:' + (h[-1][0] if h else '?'), dict(
                                count=1, choices=h, no_replay=True,
                                detail=f'{kind}: the history {h} did not finish within {HANG_S} s (a client or the server blocks)'))
                            hung = True
                            break
                        msg = a.recv()
                        if msg[0] == 'at':
                            at = msg[1]
                            continue
                        tag, out, rpcs = msg
                        results.extend(zip(ch, out))
                        break
                    if hung:
                        break
                if hung:
                    hang = True
                    break       # the group that hangs is lost; report what was found
                nxt = []
                for (s, op, h), v in results:
                    transitions += 1
                    cs.execs += 1
                    if len(h) > 1:
                        cs.nontrivial += 1
                    s2 = step(s, tuple(op))
                    if v is not None:
                        sig, detail = v
                        ent = cs.violations.get(sig)
                        if ent is None or len(h) < len(ent['choices']):
                            cs.violations[sig] = dict(count=(ent['count'] + 1 if ent else 1), choices=h, detail=detail, no_replay=True)
                        else:
                            ent['count'] += 1
                        continue   # do not extend histories through a violating state
                    cs.outcomes[repr(s2)] += 1
                    if s2 not in seen:
                        seen[s2] = h
                        nxt.append(s2)
                frontier = nxt
                if not frontier:
                    break
            cs.nodes = len(seen)
            cs.transitions = transitions
            cs.replayed = transitions
            cs.maxpoints = maxd
            cs.samples = [dict(history=seen[s], state=s._asdict()) for s in list(seen)[-2:]]
            cs.wall = time.time() - cs.t0
            stats.append(cs)
            if hang:
                break
    finally:
        if hang:
            import signal
            for p, a in workers:
                try:
                    os.killpg(p.pid, signal.SIGKILL)
                except OSError:
                    pass
        for p, a in workers:
            try:
                a.send(None)
            except Exception:
                pass
        for p, a in workers:
            p.join(30)
            if p.is_alive():
                p.kill()
    # thread interleavings inside the server (schedex on the worker pool)
    from mc.explore import explore
    race_stats = explore('checks.c13', ['server_races'], tier, seed, pool)
    stats = stats + race_stats
    return report.conclude(
        PROPERTY, 'checks.c13', tier, seed, stats, t0, pool,
        assumptions=['every RPC is synchronous, so the driver fully orders each history (no scheduler nondeterminism)',
                     'gc.collect() runs in every client process and in the server before each sample (traceback<->frame '
                     'cycles otherwise keep proxies / hosted objects alive until the next cyclic collection)',
                     'holder counts are capped at 2 per place; one spawn and one agent exit per history'],
        rule='breadth-first search over operation histories; canonical state = holder multiset of the reference model; every '
             'transition (also those leading to known states) is executed on the real server by replaying its history on '
             'fresh hosted objects; non-trivial = history of length >= 2',
        extra=dict(transitions=sum(getattr(c, 'transitions', 0) for c in stats), states=sum(c.nodes for c in stats)),
        explanation='states = canonical states of the reference model reached by the breadth-first search; transitions = histories executed against the real manager server and real client processes (one per model transition, also those leading to known states); every transition is an implementation trace, hence traces_validated_against_impl = transitions. There is no scheduler nondeterminism: every RPC is synchronous.')
