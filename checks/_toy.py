"""Self-test harnesses: a seeded lost-update that the explorer must find, and its repaired twin that must be clean."""
import threading

from mc import sched
from mc.explore import Exec, Harness, default_verdict


class Counter:
    def __init__(self, locked):
        self.v = 0
        self.lock = threading.Lock() if locked else None

    def incr(self):
        if self.lock is not None:
            with self.lock:
                t = self.v
                t = t + 1
                self.v = t
        else:
            t = self.v
            t = t + 1
            self.v = t


class ToyExec(Exec):
    def __init__(self, cfg):
        self.cfg = cfg

    def body(self):
        c = Counter(self.cfg['locked'])
        ts = [threading.Thread(target=c.incr) for _ in range(2)]
        for t in ts:
            t.start()
        for t in ts:
            t.join()
        return c.v

    def verdict(self, r):
        v = default_verdict(r)
        if v:
            return v
        if r.value != 2:
            return ('lost-update', f'counter={r.value}')


class Toy(Harness):
    name = 'toy'

    def setup(self):
        return [sched.code_of(Counter.incr)]

    def configs(self, tier):
        return [dict(locked=False, bound=0), dict(locked=False, bound=1), dict(locked=True, bound=2)]

    def new(self, cfg):
        return ToyExec(cfg)


HARNESSES = {'toy': Toy}
