"""C03  Stream pipelines equal their sequential meaning.

seqex (bounded-exhaustive enumeration against a reference interpreter):

'pipelines'   every type-correct operator sequence up to length L (quick 3, thorough 4) over an alphabet of 30 operator
              instances with boundary parameters (1, 2, len, len+1), crossed with a fixed family of inputs (empty,
              singleton, 0..4, exception objects as values, nested lists) and the three ways of consuming (iteration,
              collect, drain).  Each case runs the real Stream and a boring list interpreter.  Pipelines containing
              buffer / parmap start threads; every case runs under the controlled scheduler (default schedule), so a
              hang is a clean deadlock verdict.  shuffle is checked to be a permutation, for several seeds.
'incremental' chains of one-to-one operators over an instrumented 40-element source: building the pipeline pulls
              nothing; after taking k outputs the source has been pulled at most k + sum(slack(op)).
"""
from __future__ import annotations

import itertools
import random

from mc import sched
from mc.explore import Harness

PROPERTY = 'C03'


class Boom(Exception):
    pass


class Vec:
    """an element whose == is element-wise and answers with a list (like many array / series types): the answer to
    `v == anything` is truthy for a non-empty Vec, whatever it is compared with"""

    def __init__(self, xs):
        self.xs = list(xs)

    def __eq__(self, other):
        return [x == other for x in self.xs]

    def __add__(self, other):
        return Vec(self.xs + (other.xs if isinstance(other, (Vec, Arr)) else [other]))

    __hash__ = None


class Ambiguous:
    def __bool__(self):
        raise ValueError('The truth value of an array with more than one element is ambiguous')


class Arr(Vec):
    """an element whose == answers with something that refuses to be used as a truth value (numpy arrays do that)"""

    def __eq__(self, other):
        return Ambiguous()

    __hash__ = None


def norm(v):
    if isinstance(v, Vec):
        return (type(v).__name__, [norm(x) for x in v.xs])
    if isinstance(v, BaseException):
        return ('EXC', type(v).__name__) + tuple(norm(a) for a in v.args)
    if isinstance(v, (list, tuple)):
        return [norm(a) for a in v]
    return v


# ------------------------------------------------------------------ operator alphabet
# each: name, in-types, out-type fn, apply(stream), ref(list) -> list (may raise)
def f_inc(x):
    return x + 1 if isinstance(x, int) and not isinstance(x, bool) else x


def f_boom3(x):
    if x == 3:
        raise Boom('three')
    return f_inc(x)


def p_even(x):
    return not isinstance(x, int) or x % 2 == 0


def k_half(x):
    return x // 2 if isinstance(x, int) else 'other'


def add(a, b):
    return a + b


# The reference is a chain of plain generators (the documented sequential meaning, evaluated lazily).
def ref_filter_exc(xs, drop, keep):
    for x in xs:
        if isinstance(x, BaseException):
            if keep is not None and isinstance(x, keep):
                yield x
                continue
            if drop is not None and isinstance(x, drop):
                continue
            raise x
        yield x


def ref_map(xs, f):
    for x in xs:
        yield f(x)


def ref_accumulate(xs, init):
    z = init
    first = init is None
    for x in xs:
        if first:
            z = x
            first = False
        else:
            z = add(z, x)
        yield z


def ref_parmap(xs, f, rx, rex):
    for x in xs:
        try:
            y = f(x)
        except Exception as e:
            if not rex:
                raise
            y = e
        yield (x, y) if rx else y


def ref_unbatch(xs):
    for x in xs:
        yield from x


def ref_batch(xs, b):
    batch = []
    for x in xs:
        batch.append(x)
        if len(batch) == b:
            yield batch
            batch = []
    if batch:
        yield batch


def ref_groupby(xs):
    for k, g in itertools.groupby(xs, k_half):
        yield (k, list(g))


def ref_head(xs, n, peek_one_more):
    # "first n elements"; whether the element after them is evaluated is not part of the meaning
    # (documented look-ahead of 1), so both readings are accepted when they differ (only if that element fails)
    if not peek_one_more:
        yield from itertools.islice(xs, n)
        return
    i = 0
    for x in xs:
        if i >= n:
            break
        yield x
        i += 1


def ref_tail(xs, n):
    import collections
    yield from collections.deque(xs, maxlen=n)


def materialize(kv):
    return (kv[0], list(kv[1]))


SIZES = (1, 2, 5, 6)   # 5 = len of the longest input, 6 = len + 1

OPS = {}


def op(name, intypes, outtype, apply, ref, threaded=False, one_to_one=False, slack=0):
    OPS[name] = dict(name=name, intypes=intypes, outtype=outtype, apply=apply, ref=ref, threaded=threaded,
                     one_to_one=one_to_one, slack=slack)


ANY = ('I', 'L', 'P')
same = lambda t: t  # noqa: E731

op('map_inc', ('I',), same, lambda s: s.map(f_inc), lambda xs: ref_map(xs, f_inc), one_to_one=True)
op('map_boom3', ('I',), same, lambda s: s.map(f_boom3), lambda xs: ref_map(xs, f_boom3), one_to_one=True)
op('filter_even', ('I',), same, lambda s: s.filter(p_even), lambda xs: (x for x in xs if p_even(x)))
op('fexc_default', ('I',), same, lambda s: s.filter_exceptions(), lambda xs: ref_filter_exc(xs, None, None))
op('fexc_drop_value', ('I',), same, lambda s: s.filter_exceptions(drop_exc_types=ValueError),
   lambda xs: ref_filter_exc(xs, ValueError, None))
op('fexc_keep_value_drop_all', ('I',), same, lambda s: s.filter_exceptions(drop_exc_types=Exception, keep_exc_types=ValueError),
   lambda xs: ref_filter_exc(xs, Exception, ValueError))
op('peek2', ANY, same, lambda s: s.peek(interval=2, print_func=lambda m: None), lambda xs: xs, one_to_one=True)
# parameter forms that the docstrings / type hints allow: an empty list for "none", a list of exception types
op('fexc_drop_empty_list', ('I',), same, lambda s: s.filter_exceptions(drop_exc_types=[]), lambda xs: ref_filter_exc(xs, None, None))
op('peek_exc_list', ANY, same, lambda s: s.peek(interval=None, exc_types=[ValueError], print_func=lambda m: None), lambda xs: xs,
   one_to_one=True)
for n in SIZES:
    op(f'head{n}', ANY, same, lambda s, n=n: s.head(n), lambda xs, n=n, peek=False: ref_head(xs, n, peek), one_to_one=(n == 6), slack=1)
    op(f'tail{n}', ANY, same, lambda s, n=n: s.tail(n), lambda xs, n=n: ref_tail(xs, n))
for b in (1, 2, 6):
    op(f'batch{b}', ANY, lambda t: 'L', lambda s, b=b: s.batch(b), lambda xs, b=b: ref_batch(xs, b))
op('unbatch', ('L',), lambda t: 'I', lambda s: s.unbatch(), ref_unbatch)
op('groupby_half', ('I',), lambda t: 'P', lambda s: s.groupby(k_half).map(materialize), ref_groupby)
op('accumulate', ('I',), same, lambda s: s.accumulate(add), lambda xs: ref_accumulate(xs, None), one_to_one=True)
op('accumulate10', ('I',), same, lambda s: s.accumulate(add, 10), lambda xs: ref_accumulate(xs, 10), one_to_one=True)
for m in (1, 2, 6):
    op(f'buffer{m}', ANY, same, lambda s, m=m: s.buffer(m), lambda xs: xs, threaded=True, one_to_one=True, slack=m + 2)
for conc in (1, 2):
    op(f'parmap_inc_c{conc}', ('I',), same,
       lambda s, conc=conc: s.parmap(f_inc, executor='thread', concurrency=conc),
       lambda xs: ref_parmap(xs, f_inc, False, False), threaded=True, one_to_one=True, slack=2 * conc + 3)
op('parmap_boom3_rex', ('I',), same,
   lambda s: s.parmap(f_boom3, executor='thread', concurrency=2, return_exceptions=True),
   lambda xs: ref_parmap(xs, f_boom3, False, True), threaded=True, one_to_one=True, slack=7)
op('parmap_boom3_raise', ('I',), same,
   lambda s: s.parmap(f_boom3, executor='thread', concurrency=2),
   lambda xs: ref_parmap(xs, f_boom3, False, False), threaded=True)
op('parmap_inc_rx', ('I',), lambda t: 'P',
   lambda s: s.parmap(f_inc, executor='thread', concurrency=1, return_x=True),
   lambda xs: ref_parmap(xs, f_inc, True, False), threaded=True)
for k in (1, 3, 6):
    op(f'shuffle{k}', ANY, lambda t: 'S', lambda s, k=k: s.shuffle(k), None)

OP_NAMES = list(OPS)

INPUTS = {
    'empty': ('I', lambda: []),
    'one': ('I', lambda: [7]),
    'five': ('I', lambda: [0, 1, 2, 3, 4]),
    'excs': ('I', lambda: [3, ValueError('v'), 4, 5]),
    'keyerr': ('I', lambda: [2, KeyError('k'), 6]),
    'nested': ('L', lambda: [[0, 1], [2], [], [3, 4]]),
    # None is an element like any other
    'nones': ('I', lambda: [0, None, 2, None]),
    # opaque elements with an unusual but legal ==: no operator has any business comparing the elements it carries
    'opaque': ('I', lambda: [Vec([1, 2]), Arr([3, 4]), Vec([])]),
}


def programs(maxlen, start_type):
    """all type-correct operator sequences; shuffle only in last position"""
    def rec(prefix, t):
        yield prefix
        if len(prefix) >= maxlen or t == 'S':
            return
        for name in OP_NAMES:
            o = OPS[name]
            if t in o['intypes']:
                yield from rec(prefix + [name], o['outtype'](t))
    yield from rec([], start_type)


def run_reference(prog, xs, peek=False):
    g = iter(xs)
    for name in prog:
        o = OPS[name]
        if o['ref'] is None:
            try:
                return ('PERM', sorted(map(repr, map(norm, list(g)))))
            except Exception as e:
                return ('RAISED', type(e).__name__)
        if name.startswith('head'):
            g = o['ref'](g, peek=peek)
        else:
            g = o['ref'](g)
    try:
        return ('OK', norm(list(g)))
    except Exception as e:
        return ('RAISED', type(e).__name__)


def run_real(prog, xs, mode):
    from mpservice.streamer import Stream
    s = Stream(iter(xs))
    for name in prog:
        s = OPS[name]['apply'](s)
    try:
        if mode == 'iter':
            out = [x for x in s]
        elif mode == 'collect':
            out = s.collect()
        else:
            n = s.drain()
            return ('COUNT', n)
    except Exception as e:
        return ('RAISED', type(e).__name__)
    if prog and OPS[prog[-1]]['ref'] is None:
        return ('PERM', sorted(map(repr, map(norm, out))))
    return ('OK', norm(out))


class PipelinesH(Harness):
    name = 'pipelines'
    kind = 'cases'

    def setup(self):
        sched.install()
        return []

    def configs(self, tier):
        L = 3 if tier == 'quick' else 4
        return [dict(input=k, maxlen=L if k in ('five', 'excs') else min(L, 3) if tier == 'quick' else L) for k in INPUTS]

    def cases(self, cfg):
        t, _ = INPUTS[cfg['input']]
        for prog in programs(cfg['maxlen'], t):
            modes = ('iter', 'collect', 'drain') if len(prog) <= 2 else ('iter',)
            for mode in modes:
                yield [prog, mode]

    def run_case(self, cfg, case):
        prog, mode = case
        mk = INPUTS[cfg['input']][1]
        exp = run_reference(prog, mk())
        exp2 = run_reference(prog, mk(), peek=True) if any(n.startswith('head') for n in prog) else exp
        seeds = (0, 1, 2) if prog and prog[-1].startswith('shuffle') else (0,)
        got = None
        for seed in seeds:
            random.seed(seed)
            if any(OPS[n]['threaded'] for n in prog):
                r = sched.run_once(lambda: run_real(prog, mk(), mode), max_points=20000)
                if r.error is not None:
                    got = ('HANG', r.error[0], str(r.stuck)[:300])
                elif r.exc is not None:
                    got = ('CRASH', type(r.exc).__name__, str(r.exc)[:200])
                else:
                    got = r.value
            else:
                got = run_real(prog, mk(), mode)
            ok = False
            for e in (exp, exp2):
                if mode == 'drain' and e[0] in ('OK', 'PERM'):
                    ok = ok or got == ('COUNT', len(e[1]))
                else:
                    ok = ok or got == e
            if not ok:
                kind = got[0] if isinstance(got, tuple) else 'other'
                return (repr(got)[:200], (f'pipeline-differs:{kind}:{prog[-1] if prog else ""}',
                                          f'{prog} on {cfg["input"]} ({mode}): real {got!r} vs reference {exp!r}'), True)
        return (repr(got)[:200], None, len(prog) >= 2)


# ------------------------------------------------------------------ laziness / incrementality
class Source:
    def __init__(self, n):
        self.n = n
        self.pulled = 0

    def __iter__(self):
        return self

    def __next__(self):
        if self.pulled >= self.n:
            raise StopIteration
        self.pulled += 1
        return self.pulled - 1


class IncrementalH(Harness):
    name = 'incremental'
    kind = 'cases'

    def setup(self):
        sched.install()
        return []

    def configs(self, tier):
        return [dict(maxlen=3 if tier == 'quick' else 4)]

    def cases(self, cfg):
        names = [n for n in OP_NAMES if OPS[n]['one_to_one'] and n not in ('map_boom3', 'parmap_boom3_rex')]
        for L in range(0, cfg['maxlen'] + 1):
            for prog in itertools.product(names, repeat=L):
                for k in (1, 3):
                    yield [list(prog), k]

    def run_case(self, cfg, case):
        from mpservice.streamer import Stream
        prog, k = case

        def body():
            src = Source(40)
            s = Stream(src)
            for name in prog:
                s = OPS[name]['apply'](s)
            built = src.pulled
            it = iter(s)
            after_iter = src.pulled
            out = [next(it) for _ in range(k)]
            pulled = src.pulled
            it.close() if hasattr(it, 'close') else None
            return built, after_iter, pulled, out

        r = sched.run_once(body, max_points=20000)
        if r.error is not None or r.exc is not None:
            return ('error', ('incremental-failed', f'{prog}: {r.error} {r.exc!r}'), True)
        built, after_iter, pulled, out = r.value
        slack = sum(OPS[n]['slack'] for n in prog)
        if built != 0 or after_iter != 0:
            return (repr(r.value), ('eager-construction', f'{prog}: building/iter() pulled {built}/{after_iter} elements'), True)
        if pulled > k + slack:
            return (repr(r.value), ('not-incremental', f'{prog}: after {k} outputs the source was pulled {pulled} > {k}+{slack}'), True)
        return (f'pulled-k={pulled - k}', None, len(prog) >= 1)


from . import c05  # noqa: E402


class ThreadedOpsH(c05.BufferH):
    """buffer() under the scheduler with slow / bursty sources and timer deviations: the yielded elements must still be exactly
    the source's (the threaded operators are where 'equal to the sequential meaning' depends on the schedule)"""
    name = 'threaded_ops'

    def configs(self, tier):
        return [c for c in c05.BufferH.configs(self, tier) if c['ev'][0] == 'none']


HARNESSES = {'pipelines': PipelinesH, 'incremental': IncrementalH, 'threaded_ops': ThreadedOpsH}
PLAN = {'quick': ['pipelines', 'incremental', 'threaded_ops'], 'thorough': ['pipelines', 'incremental', 'threaded_ops']}
RULE = ('breadth-first enumeration of all type-correct operator sequences up to the length bound x fixed input family x '
        'consumption modes; every case runs the real Stream and the reference list interpreter; non-trivial = at least '
        'two operators')
ASSUMPTIONS = ['pipelines with buffer/parmap run under the default schedule only (their schedules are the subject of C01/C05/C08)',
               'groupby is used in its documented pattern groupby(key).map(materialize)',
               'when a pipeline raises, only the exception type is compared (partial outputs before a failure: C05)']
