"""C12  Process and Thread objects report how their target really ended.

'thread'   real mpservice.threading.Thread under the controlled scheduler: target alphabet {return None / 0 / object,
           raise ValueError('x'), raise a two-argument custom exception, sys.exit() with None / 0 / 1 / 'msg'} x which
           accessor is applied first right after start() {join, result, exception, done-poll, wait, as_completed}, followed
           by all the others; all schedules within the delay bound.
'process'  real mpservice SpawnProcess behind the simulated process boundary (simproc): same alphabet, plus a KILL of the
           child at EVERY scheduling point of the child (crash points: one free choice per point - before the target, inside
           it, between the two result sends, after them, while exiting) with SIGKILL / SIGTERM, x first accessor.
Oracle: every accessor returns within the horizon; a returned value is returned; an exception is re-raised with the target's
type and args and carries the child's traceback text; SystemExit code <-> exitcode; a killed child surfaces as an error from
join/result/exception (SIGTERM: the documented quiet termination) and completes wait/as_completed; all accessors agree.
Conformance twins: real SIGKILL / SIGTERM / each exit kind on a real spawned child.
"""
from __future__ import annotations

import sys

from mc import sched, simproc
from mc.explore import Exec, Harness, default_verdict

PROPERTY = 'C12'


class TwoArgs(Exception):
    def __init__(self, a, b):
        super().__init__(a, b)
        self.a = a
        self.b = b


class StatusError(Exception):
    """constructor reads an attribute of its argument: given a plain string it fails with AttributeError, not TypeError"""

    def __init__(self, response):
        super().__init__(response.status)
        self.response = response

    def __reduce__(self):      # picklable (its default reduce would call StatusError(503))
        return (StatusError, (self.response,))


class Resp:
    status = 503

    def __eq__(self, other):
        return isinstance(other, Resp)


def target(kind):
    if kind == 'none':
        return None
    if kind == 'zero':
        return 0
    if kind == 'obj':
        return {'k': [1, 2]}
    if kind == 'value_error':
        raise ValueError('x')
    if kind == 'two_args':
        raise TwoArgs('a', 2)
    if kind == 'status_error':
        raise StatusError(Resp())
    if kind == 'exit_none':
        sys.exit()
    if kind == 'exit0':
        sys.exit(0)
    if kind == 'exit1':
        sys.exit(1)
    if kind == 'exit_msg':
        sys.exit('msg')
    raise AssertionError(kind)


KINDS = ['none', 'zero', 'obj', 'value_error', 'two_args', 'status_error', 'exit_none', 'exit0', 'exit1', 'exit_msg']
ACCESSORS = ['join', 'result', 'exception', 'done', 'wait', 'as_completed']

EXPECT = {   # kind -> (value, exception type name, exception args, process exitcode)
    'none': (None, None, None, 0), 'zero': (0, None, None, 0), 'obj': ({'k': [1, 2]}, None, None, 0),
    'value_error': (None, 'ValueError', ('x',), 1), 'two_args': (None, 'TwoArgs', ('a', 2), 1),
    'status_error': (None, 'StatusError', (503,), 1),
    'exit_none': (None, None, None, 0), 'exit0': (None, None, None, 0),
    'exit1': (None, 'SystemExit', (1,), 1), 'exit_msg': (None, 'SystemExit', ('msg',), 1),
}


def describe(e):
    if e is None:
        return None
    return (type(e).__name__, tuple(e.args))


class AccessExec(Exec):
    """cfg: what 'thread'|'process', kind, first accessor"""

    def __init__(self, cfg):
        self.cfg = cfg
        self.killed = None

    def apply(self, w, acc, mod):
        """-> observation of one accessor"""
        try:
            if acc == 'join':
                w.join()
                return ('join', 'returned')
            if acc == 'result':
                return ('result', 'value', w.result())
            if acc == 'exception':
                return ('exception', 'value', describe(w.exception()))
            if acc == 'done':
                n = 0
                while not w.done():
                    n += 1
                    import time
                    time.sleep(0.01)
                    if n > 200:
                        return ('done', 'never')
                return ('done', True)
            if acc == 'wait':
                done, notdone = mod.wait([w], timeout=50)
                return ('wait', len(done), len(notdone))
            if acc == 'as_completed':
                got = list(mod.as_completed([w], timeout=50))
                return ('as_completed', len(got), got[0] is w if got else None)
        except BaseException as e:
            if isinstance(e, sched.Abort):
                raise
            tb = None
            if acc in ('join', 'result'):
                cause = e.__cause__
                tb = str(cause) if cause is not None else None
            return (acc, 'raised', describe(e), tb)

    def body(self):
        cfg = self.cfg
        s = sched.S()
        if cfg['what'] == 'thread':
            import mpservice.threading as mod
            w = mod.Thread(target=target, args=(cfg['kind'],))
        else:
            import mpservice.multiprocessing as mod
            w = mod.Process(target=target, args=(cfg['kind'],))
            if cfg.get('crash'):
                sig = cfg['crash']
                s.crashable = lambda ptag: sig if ptag.startswith('child') else None
                s.crash_fn = simproc.crash_process
                s.crashes_left = 1
        w.start()
        if cfg.get('terminate'):
            w.terminate()       # the parent terminates the child; the explored schedules decide how far the child got
        obs = [self.apply(w, cfg['first'], mod)]
        for acc in ACCESSORS:
            if acc != cfg['first']:
                obs.append(self.apply(w, acc, mod))
        if cfg.get('restart'):
            # an erroneous second start() is refused and must leave the recorded outcome as it was
            try:
                w.start()
                again = 'started twice'
            except (RuntimeError, AssertionError) as e:
                again = type(e).__name__
            obs.append(('restart', again, [self.apply(w, acc, mod) for acc in ACCESSORS]))
        code = getattr(w, 'exitcode', None) if cfg['what'] == 'process' else None
        if cfg['what'] == 'process':
            self.killed = code is not None and code < 0
            del w
            import gc
            gc.collect()
        return obs, code

    def observe(self, r):
        if r.error is not None:
            return r.error[0]
        if r.exc is not None:
            return 'exc:' + type(r.exc).__name__
        return repr((r.value[1], [o[:3] if o[0] != 'restart' else (o[0], o[1], [x[:3] for x in o[2]]) for o in r.value[0]]))[:400]

    def verdict(self, r):
        v = default_verdict(r)
        if v:
            return v
        cfg = self.cfg
        obs, code = r.value
        value, etype, eargs, excode = EXPECT[cfg['kind']]
        killed = code is not None and code < 0
        by = {o[0]: o for o in obs}
        if 'restart' in by:
            _, again, obs2 = by.pop('restart')
            obs = [o for o in obs if o[0] != 'restart']
            if again == 'started twice':
                return ('second-start-accepted', 'start() on a finished worker did not raise')
            if sorted(repr(o[:3]) for o in obs2) != sorted(repr(o[:3]) for o in obs):
                return ('outcome-changed-by-refused-restart', f'before {obs}; after the refused second start() {obs2}')
        if cfg['what'] == 'process':
            if killed:
                if code not in (-9, -15):
                    return ('wrong-exitcode', f'{code}')
            elif code != excode:
                return ('wrong-exitcode', f'exitcode {code}, expected {excode} for {cfg["kind"]}')
        # completion accessors
        if by['done'] != ('done', True):
            return ('done-never-true', repr(by['done']))
        if by['wait'][:3] != ('wait', 1, 0):
            return ('wait-incomplete:' + str(by['wait'][1:3]), f'wait([w]) -> {by["wait"]}; all: {obs}')
        if by['as_completed'][:3] != ('as_completed', 1, True):
            return ('as_completed-incomplete', f'{by["as_completed"]}; all: {obs}')
        if killed:
            # the kill may land after the target's outcome has been delivered completely (e.g. while the child exits):
            # then the accessors report that outcome.  Otherwise SIGKILL surfaces as an error from join / result /
            # exception, SIGTERM is the documented quiet termination (no value, no error).
            kill_reported = (by['join'][1] == 'raised' and by['join'][2][0] == 'OSError')
            if code == -9 and kill_reported:
                if by['result'][1] != 'raised' or by['result'][2][0] != 'OSError':
                    return ('kill-not-reported-by-result', f'{by["result"]} after SIGKILL; all: {obs}')
                if by['exception'][1] != 'value' or by['exception'][2] is None or by['exception'][2][0] != 'OSError':
                    return ('kill-not-reported-by-exception', f'{by["exception"]} after SIGKILL; all: {obs}')
                return None
            if code == -15 and by['join'] == ('join', 'returned') and by['result'] == ('result', 'value', None) \
                    and by['exception'] == ('exception', 'value', None) and value is not None:
                return None
            if code == -15 and etype is not None and by['join'] == ('join', 'returned') and by['result'] == ('result', 'value', None):
                return None
            # otherwise: must be the target's complete, true outcome (checked below)
            if code == -9 and etype is None and value is None and by['join'] == ('join', 'returned'):
                # a None-returning target cannot be told from a lost result: a kill must not look like success
                pass
        if etype is None:
            if by['join'] != ('join', 'returned'):
                return ('join-raised', f'{by["join"]} for target kind {cfg["kind"]}')
            if by['result'] != ('result', 'value', value):
                return ('wrong-result', f'{by["result"]} expected {value!r}')
            if by['exception'] != ('exception', 'value', None):
                return ('wrong-exception', f'{by["exception"]} expected None')
        else:
            want = (etype, eargs)
            for acc in ('join', 'result'):
                if by[acc][1] != 'raised' or by[acc][2] != want:
                    return (f'wrong-error-from-{acc}', f'{by[acc][:3]} expected raise of {want}')
                if etype != 'SystemExit' and (not by[acc][3] or 'in target' not in by[acc][3]):
                    return ('traceback-lost', f'{acc} raised {want} without the target traceback text: {by[acc][3]!r}')
            if by['exception'] != ('exception', 'value', want):
                return ('wrong-exception', f'{by["exception"]} expected {want}')
        return None


class ThreadH(Harness):
    name = 'thread'
    opts = dict(max_points=3000, timers='free', max_timer_fires=400)

    def setup(self):
        import mpservice.threading as T
        codes = []
        for f in (T.Thread.run, T.Thread.join, T.Thread.result, T.Thread.exception, T.Thread.done, T.wait, T.as_completed):
            codes += sched.all_codes(f)
        return codes

    def configs(self, tier):
        d = 2 if tier == 'quick' else 3
        out = [dict(what='thread', kind=k, first=a, bound=d, cap=50000) for k in KINDS for a in ACCESSORS]
        out += [dict(what='thread', kind=k, first=a, restart=True, bound=d, cap=50000)
                for k in ('obj', 'value_error', 'exit1') for a in ('join', 'wait')]
        return out

    def new(self, cfg):
        return AccessExec(cfg)


class ProcessH(Harness):
    name = 'process'
    opts = dict(max_points=4000, timers='free', max_timer_fires=600)

    def setup(self):
        simproc.install()
        import mpservice.multiprocessing as M
        import mpservice.multiprocessing.context as ctxmod
        P = ctxmod.SpawnProcess
        codes = []
        for f in (P.start, P.run, P._collect_result, P.join, P.result, P.exception, P.done, M.wait, M.as_completed):
            codes += sched.all_codes(f)
        return codes

    def configs(self, tier):
        quick = tier == 'quick'
        out = []
        for k in KINDS:
            for a in ACCESSORS:
                out.append(dict(what='process', kind=k, first=a, bound=1 if quick else 2, cap=100000))
        # crash points: kill at every scheduling point of the child
        for sig in (9, 15):
            for k in ('obj', 'value_error', 'exit1'):
                for a in ACCESSORS:
                    out.append(dict(what='process', kind=k, first=a, crash=sig, bound=1 if quick and a in ('join', 'wait') else (0 if quick else 1), cap=100000))
        for k in ('obj', 'value_error'):
            out.append(dict(what='process', kind=k, first='join', restart=True, bound=1 if quick else 2, cap=100000))
        # terminate() by the parent right after start(), wherever the child happens to be
        for k in ('obj', 'value_error', 'none'):
            for a in ('join', 'result', 'wait', 'as_completed'):
                out.append(dict(what='process', kind=k, first=a, terminate=True, bound=1 if quick else 2, cap=100000))
        return out

    def new(self, cfg):
        return AccessExec(cfg)


def twins(tier, pool, stats):
    """conformance: real spawned children (return / raise / sys.exit / real SIGKILL / real SIGTERM); the observed accessor
    outcomes must be the ones the exploration of the simulated boundary produced for these cases"""
    import os
    import subprocess
    from mc.explore import PY, REPO, VERIF
    env = dict(os.environ, PYTHONPATH=os.path.join(REPO, 'src'))
    try:
        r = subprocess.run([PY, os.path.join(VERIF, 'checks', 'twins', 'c12_real.py')], capture_output=True, text=True,
                           timeout=120, env=env)
        ok = r.returncode == 0
        detail = (r.stdout + r.stderr)[-400:]
    except subprocess.TimeoutExpired:
        ok = False
        detail = 'watchdog: an accessor of a real process did not return within 120 s'
    if not ok:
        stats[0].violations.setdefault('real-process-twin', dict(count=1, choices=[], no_replay=True,
                                                                  detail=f'real processes: {detail}'))
        return 0
    return 5


HARNESSES = {'thread': ThreadH, 'process': ProcessH}
PLAN = {'quick': ['thread', 'process'], 'thorough': ['thread', 'process']}
