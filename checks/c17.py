"""C17  IterableQueue delivers every item once and every consumer finishes.

Real IterableQueue over a real queue.Queue (on simulated primitives) with m supplier threads and n consumer threads,
two rounds separated by renew(); put_end / __next__ / renew are traced line by line.  Oracle per round: the multiset
received by all consumers equals the multiset put, None is never delivered, every consumer loop ends, renew succeeds,
and nothing (item or end marker) leaks into the next round.

'responsive': ResponsiveQueue get/put blocked on an empty/full queue while an environment thread sets the stop event
at a chosen virtual time: both must raise StopRequested within the wait interval.
"""
from __future__ import annotations

import queue
import threading

from mc import sched
from mc.explore import Exec, Harness, default_verdict

PROPERTY = 'C17'


class IQExec(Exec):
    def __init__(self, cfg):
        self.cfg = cfg

    def body(self):
        from mpservice.queue import IterableQueue
        cfg = self.cfg
        m, n = cfg['m'], cfg['n']
        if cfg.get('mp'):
            # with `to_stop` the class keeps its token queues in multiprocessing queues even for thread use:
            # here they are simulated multiprocessing queues (per-process buffer + feeder thread + pipe)
            iq = IterableQueue(queue.Queue(cfg['maxsize']), num_suppliers=m, to_stop=threading.Event())
        else:
            iq = IterableQueue(queue.Queue(cfg['maxsize']), num_suppliers=m)
        rounds = []
        for rnd in range(cfg['rounds']):
            got = [[] for _ in range(n)]
            done = [False] * n
            errs = []
            puts = []

            def supply(k, rnd=rnd, puts=puts, errs=errs):
                try:
                    for j in range(cfg['items']):
                        x = (rnd, k, j)
                        puts.append(x)
                        iq.put(x)
                    iq.put_end()
                except BaseException as e:
                    errs.append(('supplier', type(e).__name__, str(e)))

            def consume(k, got=got, done=done, errs=errs):
                try:
                    for x in iq:
                        got[k].append(x)
                    done[k] = True
                except BaseException as e:
                    errs.append(('consumer', type(e).__name__, str(e)))

            ts = [threading.Thread(target=supply, args=(k,), name=f'sup{chr(97 + k)}') for k in range(m)]
            ts += [threading.Thread(target=consume, args=(k,), name=f'con{chr(97 + k)}') for k in range(n)]
            for t in ts:
                t.start()
            for t in ts:
                t.join()
            renew_err = None
            if rnd < cfg['rounds'] - 1:
                try:
                    iq.renew()
                except Exception as e:
                    renew_err = f'{type(e).__name__}: {e}'
            rounds.append((sorted(puts), sorted(x for g in got for x in g), list(done), errs, renew_err))
        leftover = []
        try:
            while True:
                leftover.append(iq._q.get(block=False))
        except queue.Empty:
            pass
        return rounds, leftover

    def verdict(self, r):
        v = default_verdict(r)
        if v:
            return v
        rounds, leftover = r.value
        for i, (puts, got, done, errs, renew_err) in enumerate(rounds):
            if errs:
                return (f'party-raised:{errs[0][0]}:{errs[0][1]}', f'round {i}: {errs}')
            if any(x is None for x in got):
                return ('none-delivered', f'round {i}: {got}')
            if got != puts:
                return ('wrong-items', f'round {i}: put {puts}, received {got}')
            if not all(done):
                return ('consumer-not-finished', f'round {i}: {done}')
            if renew_err:
                return ('renew-failed', f'after round {i}: {renew_err}')
        if leftover != [None]:
            return ('wrong-final-queue', f'queue holds {leftover} after the last round, expected exactly one end marker')
        return None


class IQH(Harness):
    name = 'iq'
    opts = dict(max_points=4000, timers='free', max_timer_fires=100)

    def setup(self):
        from mpservice.queue import IterableQueue
        codes = []
        for f in (IterableQueue.put_end, IterableQueue.__next__, IterableQueue.renew):
            codes += sched.all_codes(f)
        return codes

    def configs(self, tier):
        quick = tier == 'quick'
        out = []
        for m, n, items, maxsize, d in ((1, 1, 2, 1, 2), (1, 2, 2, 1, 2), (2, 1, 1, 0, 2), (2, 2, 1, 0, 2), (2, 2, 1, 1, 2),
                                        (1, 3, 1, 0, 2), (2, 3, 1, 0, 1)):
            if not quick:
                d += 1
            out.append(dict(m=m, n=n, items=items, maxsize=maxsize, rounds=2, bound=d, cap=80000 if quick else 800000))
        return out

    def new(self, cfg):
        return IQExec(cfg)


class RenewExec(Exec):
    """EXPLORATORY, NOT PART OF THE CHECK (not in PLAN; run with --harness iq_renew): the property quantifies over rounds
    *separated by renew*.  Here the rounds are not separated: suppliers run two rounds on their own (second put_end with wait_for_renew=True, which the class documents for exactly
    this use); one consumer iterates, calls renew(), iterates again.  Round-2 items may be put before renew() is called."""

    def __init__(self, cfg):
        self.cfg = cfg

    def body(self):
        from mpservice.queue import IterableQueue
        cfg = self.cfg
        m = cfg['m']
        iq = IterableQueue(queue.Queue(cfg['maxsize']), num_suppliers=m)
        errs = []
        got = [[], []]

        def supply(k):
            try:
                for rnd in range(2):
                    for j in range(cfg['items']):
                        iq.put((rnd, k, j))
                    iq.put_end(wait_for_renew=(rnd == 1))
            except BaseException as e:
                errs.append(('supplier', type(e).__name__, str(e)[:80]))

        def consume():
            try:
                for rnd in range(2):
                    for x in iq:
                        got[rnd].append(x)
                    if rnd == 0:
                        iq.renew()
            except BaseException as e:
                errs.append(('consumer', type(e).__name__, str(e)[:80]))

        ts = [threading.Thread(target=supply, args=(k,), name=f'sup{chr(97 + k)}') for k in range(m)]
        ts.append(threading.Thread(target=consume, name='cona'))
        for t in ts:
            t.start()
        for t in ts:
            t.join()
        return got, errs

    def verdict(self, r):
        v = default_verdict(r)
        if v:
            return v
        got, errs = r.value
        cfg = self.cfg
        if errs:
            return (f'party-raised:{errs[0][0]}:{errs[0][1]}', repr(errs))
        for rnd in range(2):
            exp = sorted((rnd, k, j) for k in range(cfg['m']) for j in range(cfg['items']))
            if sorted(got[rnd]) != exp:
                return ('wrong-items-in-round', f'round {rnd}: received {got[rnd]}, expected {exp}; all: {got}')
        return None


class RenewH(IQH):
    name = 'iq_renew'

    def configs(self, tier):
        quick = tier == 'quick'
        d = 1 if quick else 2
        return [dict(m=1, items=1, maxsize=0, bound=d + 1, cap=80000), dict(m=2, items=1, maxsize=0, bound=d, cap=80000),
                dict(m=1, items=2, maxsize=2, bound=d, cap=80000)]

    def new(self, cfg):
        return RenewExec(cfg)


class IQMPH(IQH):
    """the same with the token queues in (simulated) multiprocessing queues, as the class chooses when `to_stop` is given"""
    name = 'iq_mp'
    opts = dict(max_points=6000, timers='free', max_timer_fires=300)

    def setup(self):
        from mc import simproc
        simproc.install()
        import mpservice.multiprocessing as M
        M.Queue = simproc.SimMPQueue
        return IQH.setup(self)

    def configs(self, tier):
        quick = tier == 'quick'
        out = []
        for m, n, items, maxsize, d in ((1, 2, 1, 0, 1), (2, 2, 1, 0, 1), (2, 1, 1, 1, 1)):
            if not quick:
                d += 1
            out.append(dict(m=m, n=n, items=items, maxsize=maxsize, rounds=2, mp=True, bound=d, cap=80000 if quick else 800000))
        return out


class RQExec(Exec):
    def __init__(self, cfg):
        self.cfg = cfg

    def body(self):
        from mpservice._common import StopRequested
        from mpservice.queue import ResponsiveQueue
        cfg = self.cfg
        s = sched.S()
        ev = threading.Event()
        wi = cfg['wi']
        qe = ResponsiveQueue(queue.Queue(1), ev, wait_interval_seconds=wi)     # stays empty: get blocks
        qf = ResponsiveQueue(queue.Queue(1), ev, wait_interval_seconds=wi)     # full: put blocks
        qf.put('x')
        res = {}

        def getter():
            try:
                res['get'] = ('value', qe.get(timeout=cfg['timeout']), s.now)
            except StopRequested:
                res['get'] = ('StopRequested', None, s.now)
            except queue.Empty:
                res['get'] = ('Empty', None, s.now)

        def putter():
            try:
                qf.put('y', timeout=cfg['timeout'])
                res['put'] = ('done', None, s.now)
            except StopRequested:
                res['put'] = ('StopRequested', None, s.now)
            except queue.Full:
                res['put'] = ('Full', None, s.now)

        ts = [threading.Thread(target=getter, name='getter'), threading.Thread(target=putter, name='putter')]
        for t in ts:
            t.start()
        import time
        grid = [0.0, wi / 2, wi, wi * 1.5, wi * 2.5]
        t_set = grid[s.choose(len(grid), 'stop-at')]
        if t_set > 0:
            time.sleep(t_set)
        ev.set()
        t_set = s.now
        for t in ts:
            t.join()
        return res, t_set

    def verdict(self, r):
        v = default_verdict(r)
        if v:
            return v
        res, t_set = r.value
        cfg = self.cfg
        for op in ('get', 'put'):
            kind, _, t = res[op]
            to = cfg['timeout']
            if to is not None and t_set >= to - 1e-9:
                ok = kind in ('Empty', 'Full', 'StopRequested') and t <= max(to, t_set + cfg['wi']) + 1e-9
            else:
                ok = kind == 'StopRequested' and t <= t_set + cfg['wi'] + 1e-9
                if to is not None and kind in ('Empty', 'Full') and abs(t - to) < 1e-9:
                    ok = True
            if not ok:
                return (f'stop-not-honoured:{op}:{kind}', f'{op} ended with {kind} at {t}; stop set at {t_set}, '
                        f'wait interval {cfg["wi"]}, timeout {to}')
        return None


class RQH(Harness):
    name = 'responsive'
    opts = dict(max_points=2000, timers='free', max_timer_fires=200)

    def setup(self):
        from mpservice.queue import ResponsiveQueue
        return sched.all_codes(ResponsiveQueue._get_put)

    def configs(self, tier):
        return [dict(wi=1.0, timeout=None, bound=2), dict(wi=1.0, timeout=2.2, bound=2), dict(wi=0.5, timeout=1.0, bound=2)]

    def new(self, cfg):
        return RQExec(cfg)


class RQ2Exec(Exec):
    """two consumers blocked in get() on a ResponsiveQueue that receives ONE item; then the stop event is set:
    one gets the item, the other must raise StopRequested within the wait interval"""

    def __init__(self, cfg):
        self.cfg = cfg

    def body(self):
        import time
        from mpservice._common import StopRequested
        from mpservice.queue import ResponsiveQueue
        cfg = self.cfg
        s = sched.S()
        ev = threading.Event()
        wi = cfg['wi']
        q = ResponsiveQueue(queue.Queue(2), ev, wait_interval_seconds=wi)
        res = {}

        def getter(k):
            try:
                res[k] = ('value', q.get(), s.now)
            except StopRequested:
                res[k] = ('StopRequested', None, s.now)

        ts = [threading.Thread(target=getter, args=(k,), name=f'getter{chr(97 + k)}') for k in range(2)]
        grid = [0.0, wi / 2, wi * 1.5]
        t_item = grid[s.choose(len(grid), 'item-at')]
        if cfg['item_first']:
            q.put('item')
        for t in ts:
            t.start()
        if t_item > 0:
            time.sleep(t_item)
        if not cfg['item_first']:
            q.put('item')
        time.sleep(wi / 2)
        ev.set()
        t_set = s.now
        for t in ts:
            t.join()
        return res, t_set

    def verdict(self, r):
        v = default_verdict(r)
        if v:
            return v
        res, t_set = r.value
        kinds = sorted(x[0] for x in res.values())
        if kinds != ['StopRequested', 'value']:
            return ('wrong-outcomes:' + ','.join(kinds), f'{res}')
        for k, (kind, _, t) in res.items():
            if kind == 'StopRequested' and t > t_set + self.cfg['wi'] + 1e-9:
                return ('stop-late', f'{res} stop set at {t_set}')
        return None


class RQ2H(Harness):
    name = 'responsive2'
    opts = dict(max_points=2000, timers='free', max_timer_fires=200)

    def setup(self):
        from mpservice.queue import ResponsiveQueue
        codes = []
        for f in (ResponsiveQueue._get_put, ResponsiveQueue.get, ResponsiveQueue.put):
            codes += sched.all_codes(f)
        return codes

    def configs(self, tier):
        d = 2 if tier == 'quick' else 3
        return [dict(wi=1.0, item_first=True, bound=d), dict(wi=1.0, item_first=False, bound=d)]

    def new(self, cfg):
        return RQ2Exec(cfg)


class EagerExec(Exec):
    """Long-lived consumers: each consumer thread iterates round after round and does NOT wait for renew() before it starts
    over - its early pass is empty (the queue is still marked exhausted) or is already a pass of the next round.  The main
    thread calls renew() once every consumer has finished the round, concurrently with these early passes."""

    def __init__(self, cfg):
        self.cfg = cfg

    def body(self):
        from mpservice.queue import IterableQueue
        cfg = self.cfg
        s = sched.S()
        m, n, R = cfg['m'], cfg['n'], cfg['rounds']
        iq = IterableQueue(queue.Queue(cfg['maxsize']), num_suppliers=m)
        got = [[] for _ in range(R)]
        puts = [[] for _ in range(R)]
        finished = [[False] * n for _ in range(R)]
        renewed = [False] * R
        errs = []

        def supply(k, rnd):
            try:
                for j in range(cfg['items']):
                    x = (rnd, k, j)
                    puts[rnd].append(x)
                    iq.put(x)
                iq.put_end()
            except BaseException as e:
                errs.append(('supplier', type(e).__name__, str(e)[:80]))

        def consume(k):
            try:
                for rnd in range(R):
                    for x in iq:
                        got[rnd].append(x)
                    finished[rnd][k] = True
                    if rnd < R - 1:
                        for x in iq:                    # the early pass
                            got[rnd + 1].append(x)
                        s.block(lambda: renewed[rnd], None, on='wait-renew')
            except BaseException as e:
                if isinstance(e, sched.Abort):
                    raise
                errs.append(('consumer', type(e).__name__, str(e)[:80]))

        cts = [threading.Thread(target=consume, args=(k,), name=f'con{chr(97 + k)}') for k in range(n)]
        for t in cts:
            t.start()
        renew_err = None
        for rnd in range(R):
            sts = [threading.Thread(target=supply, args=(k, rnd), name=f'sup{chr(97 + k)}') for k in range(m)]
            for t in sts:
                t.start()
            for t in sts:
                t.join()
            s.block(lambda: all(finished[rnd]) or errs, None, on='wait-round')
            if rnd < R - 1:
                try:
                    iq.renew()
                except Exception as e:
                    renew_err = f'{type(e).__name__}: {e}'
                renewed[rnd] = True
        for t in cts:
            t.join()
        leftover = []
        try:
            while True:
                leftover.append(iq._q.get(block=False))
        except queue.Empty:
            pass
        return [sorted(p) for p in puts], [sorted(g, key=repr) for g in got], errs, renew_err, leftover

    def verdict(self, r):
        v = default_verdict(r)
        if v:
            return v
        puts, got, errs, renew_err, leftover = r.value
        if errs:
            return (f'party-raised:{errs[0][0]}:{errs[0][1]}', repr(errs))
        if renew_err:
            return ('renew-failed', renew_err)
        for i, (p, g) in enumerate(zip(puts, got)):
            if any(x is None for x in g):
                return ('none-delivered', f'round {i}: {g}')
            if g != p:
                return ('wrong-items', f'round {i}: put {p}, received {g}; all rounds: {got}')
        if leftover != [None]:
            return ('wrong-final-queue', f'queue holds {leftover} after the last round, expected exactly one end marker')
        return None


class EagerH(IQH):
    name = 'iq_eager'

    def configs(self, tier):
        quick = tier == 'quick'
        out = []
        for m, n, items, d in ((1, 1, 1, 2), (1, 2, 1, 2), (2, 1, 1, 2), (2, 2, 1, 1)):
            if not quick:
                d += 1
            out.append(dict(m=m, n=n, items=items, maxsize=0, rounds=2, bound=d, cap=80000 if quick else 800000))
        out.append(dict(m=1, n=1, items=1, maxsize=0, rounds=3, bound=1 if quick else 2, cap=80000 if quick else 800000))
        return out

    def new(self, cfg):
        return EagerExec(cfg)


class SeqExec(Exec):
    """Every sequence of single-threaded operations {put by supplier s, put_end by s, next(), renew(), stop here} of length
    <= depth that the class documents as legal, chosen step by step through the explorer's (free) choice points, against a
    reference model (a list per round).  Legal: put_end once per supplier and round; next() when an item is available or all
    suppliers have ended (else it would block); renew() once after a next() has reported the end of the round; puts for the
    NEXT round after that report and before renew() (documented by put_end's docstring: they must stay inaccessible until
    renew()).  A late next() on an exhausted queue must report the end again and change nothing.  After the chosen prefix the
    round is completed (remaining put_end, drain), renew() is called, and one more round must deliver exactly the early
    items; finally the queue must hold exactly one end marker."""

    def __init__(self, cfg):
        self.cfg = cfg

    def body(self):
        from mpservice.queue import IterableQueue
        cfg = self.cfg
        s = sched.S()
        m = cfg['m']
        iq = IterableQueue(queue.Queue(), num_suppliers=m)
        cur, early, ended, exhausted = [], [], set(), False
        counter = 0
        log = []

        def nxt():
            try:
                return ('item', iq.__next__())
            except StopIteration:
                return ('end',)

        for _ in range(cfg['depth']):
            ops = []
            for k in range(m):
                if k not in ended or exhausted:
                    ops.append(('put', k))
                if k not in ended:
                    ops.append(('end', k))
            if cur or len(ended) == m:
                ops.append(('next',))
            if exhausted:
                ops.append(('renew',))
            ops.append(('stop',))
            op = ops[s.choose(len(ops), 'op')]
            log.append(op)
            if op[0] == 'stop':
                break
            if op[0] == 'put':
                counter += 1
                iq.put(counter)
                (early if exhausted else cur).append(counter)
            elif op[0] == 'end':
                iq.put_end()
                ended.add(op[1])
            elif op[0] == 'next':
                r = nxt()
                want = ('item', cur.pop(0)) if cur else ('end',)
                if not cur and want == ('end',):
                    exhausted = True
                if r != want:
                    return log, ('wrong-next', f'after {log}: next() gave {r}, the reference {want}')
            elif op[0] == 'renew':
                try:
                    iq.renew()
                except Exception as e:
                    return log, ('renew-failed', f'after {log}: {type(e).__name__}: {e}')
                cur, early, ended, exhausted = early, [], set(), False
        # completion: finish this round, renew, run one more round
        for rnd in range(2):
            for k in range(m):
                if k not in ended:
                    iq.put_end()
                    ended.add(k)
            gotten = []
            while True:
                r = nxt()
                if r == ('end',):
                    break
                gotten.append(r[1])
                if len(gotten) > 50:
                    return log, ('endless-round', f'after {log}')
            if gotten != cur:
                return log, ('wrong-items-at-completion', f'after {log}: completing round +{rnd} delivered {gotten}, the '
                             f'reference has {cur}')
            if nxt() != ('end',):
                return log, ('late-next-not-end', f'after {log}')
            if rnd == 0:
                try:
                    iq.renew()
                except Exception as e:
                    return log, ('renew-failed', f'after {log} and completing the round: {type(e).__name__}: {e}')
                cur, early, ended = early, [], set()
        leftover = []
        try:
            while True:
                leftover.append(iq._q.get(block=False))
        except queue.Empty:
            pass
        if leftover != [None]:
            return log, ('wrong-final-queue', f'after {log}: queue holds {leftover}')
        return log, None

    def observe(self, r):
        if r.error is not None:
            return r.error[0]
        if r.exc is not None:
            return 'exc:' + type(r.exc).__name__
        return repr(r.value[0])[:300]

    def verdict(self, r):
        v = default_verdict(r)
        if v:
            return v
        return r.value[1]


class SeqH(IQH):
    name = 'iq_seq'

    def configs(self, tier):
        quick = tier == 'quick'
        return [dict(m=1, depth=9 if quick else 11, bound=0, cap=1000000),
                dict(m=2, depth=7 if quick else 9, bound=0, cap=1000000)]

    def new(self, cfg):
        return SeqExec(cfg)


HARNESSES = {'iq': IQH, 'iq_renew': RenewH, 'iq_mp': IQMPH, 'responsive': RQH, 'responsive2': RQ2H, 'iq_eager': EagerH,
             'iq_seq': SeqH}
PLAN = {'quick': ['iq', 'iq_eager', 'iq_seq', 'iq_mp', 'responsive', 'responsive2'],
        'thorough': ['iq', 'iq_eager', 'iq_seq', 'iq_mp', 'responsive', 'responsive2']}
