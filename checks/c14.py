"""C14  Proxy calls behave like direct calls on the hosted object.

histex on REAL processes: every operation sequence up to the depth bound over the alphabets below is issued through proxies -
by the driver's main thread, by a second driver thread sharing the same proxy object, and by a copy of the proxy in an agent
process - against a real mpservice ServerProcess, and mirrored on a local reference object that receives the same calls.

  list   append extend insert pop pop-from-empty [i] [i]-out-of-range [i]= [i]=-out-of-range remove-missing sort reverse len
         += count index-missing
  dict   [k]= [k] [k]-missing get get-default pop pop-missing setdefault update keys() len in popitem clear
  Namespace  set get get-missing del del-missing        Value  get set
  custom class (registered): method that raises a custom exception, method that returns managed_list(...) (a live proxy whose
         mutation is visible through a second path), method that mutates

Oracle after every step: same return value, or the same exception type and args raised in the caller with is_remote_exception
true and the server-side traceback text (naming the method for Python-level methods); operations whose direct result cannot be
pickled (dict views) must raise and leave the connection usable; after the sequence the state seen through the driver's
proxy and through the agent's proxy equals the reference.
"""
from __future__ import annotations

import collections
import copy
import itertools
import pickle
import threading
import time

PROPERTY = 'C14'
VALUES = [0, 'a', (1, [2])]


class CustomError(Exception):
    def __init__(self, code, msg):
        super().__init__(code, msg)


class Thing:
    def __init__(self):
        self.items = [1]
        self.n = 0
        self.store = None

    def boom(self, code):
        raise CustomError(code, 'boom')

    def bump(self, k):
        self.n += k
        return self.n

    def get_items(self):
        from mpservice.multiprocessing.server_process import managed_list
        return managed_list(self.items)

    def items_copy(self):
        return list(self.items)

    def lookup(self, k):
        # the hosted object uses another hosted object through a proxy it keeps (inside the server the proxy takes a
        # shortcut); an error of that nested call must come out as the error it is
        if self.store is None:
            from mpservice.multiprocessing.server_process import managed_dict
            self.store = managed_dict({'a': 1})
        return self.store[k]


def register():
    from mpservice.multiprocessing.server_process import ServerProcess
    if 'Thing' not in ServerProcess._registry:
        ServerProcess.register('Thing', Thing)


# op = (name, method, args); applied identically to proxy and reference through histex.call_method
def ops_for(kind):
    out = []
    if kind in ('list', 'list_empty'):
        for v in VALUES:
            out += [('append', 'append', (v,)), ('insert0', 'insert', (0, v)), ('set0', '__setitem__', (0, v)),
                    ('iadd', '__iadd__', ([v],)), ('count', 'count', (v,)), ('index', 'index', (v,)), ('remove', 'remove', (v,))]
        out += [('extend', 'extend', ([0, 'a'],)), ('pop', 'pop', ()), ('get0', '__getitem__', (0,)), ('get5', '__getitem__', (5,)),
                ('set9', '__setitem__', (9, 0)), ('sort', 'sort', ()), ('reverse', 'reverse', ()), ('len', '__len__', ()),
                ('slice', '__getitem__', (slice(None),)), ('imul', '__imul__', (2,)), ('iter', '__iter__', ())]
    elif kind == 'dict':
        for v in VALUES[:2]:
            out += [('set_a', '__setitem__', ('a', v)), ('set_k', '__setitem__', ('k', v)), ('setdefault', 'setdefault', ('k', v)),
                    ('update', 'update', ({'u': v},))]
        out += [('get_a', '__getitem__', ('a',)), ('get_missing', '__getitem__', ('zz',)), ('get', 'get', ('a',)),
                ('get_default', 'get', ('zz', 5)), ('pop_a', 'pop', ('a',)), ('pop_missing', 'pop', ('zz',)), ('keys', 'keys', ()),
                ('len', '__len__', ()), ('contains', '__contains__', ('a',)), ('popitem', 'popitem', ()), ('clear', 'clear', ()),
                ('copy', 'copy', ()), ('iter', '__iter__', ())]
    elif kind == 'namespace':
        for v in VALUES[:2]:
            out += [('set_x', '__setattr__', ('x', v)), ('set_y', '__setattr__', ('y', v))]
        out += [('get_x', '__getattr__', ('x',)), ('get_missing', '__getattr__', ('nope',)), ('del_x', '__delattr__', ('x',)),
                ('del_missing', '__delattr__', ('nope',))]
    elif kind == 'value':
        out += [('get', 'get', ()), ('set5', 'set', (5,)), ('set7', 'set', (7,))]
    elif kind == 'thing':
        out += [('boom1', 'boom', (1,)), ('boom_s', 'boom', ('s',)), ('bump', 'bump', (2,)), ('items_copy', 'items_copy', ()),
                ('lookup_a', 'lookup', ('a',)), ('lookup_missing', 'lookup', ('zz',)),
                ('managed_append', '@managed_append', (9,)), ('managed_len', '@managed_len', ()), ('managed_keep', '@managed_keep', ())]
    return out


def make_reference(kind):
    from multiprocessing.managers import Namespace, Value
    if kind == 'list':
        return [3, 1, 2]
    if kind == 'list_empty':
        return []
    if kind == 'dict':
        return {'a': 1, 'b': 2}
    if kind == 'namespace':
        return Namespace(x=1)
    if kind == 'value':
        return Value('i', 3)
    if kind == 'thing':
        return Thing()


def make_hosted(m, kind):
    if kind == 'list':
        return m.list([3, 1, 2])
    if kind == 'list_empty':
        return m.list()
    if kind == 'dict':
        return m.dict({'a': 1, 'b': 2})
    if kind == 'namespace':
        return m.Namespace(x=1)
    if kind == 'value':
        return m.Value('i', 3)
    if kind == 'thing':
        return m.Thing()


def snapshot_ops(kind):
    if kind in ('list', 'list_empty'):
        return [('__getitem__', (slice(None),))]
    if kind == 'dict':
        return [('copy', ())]
    if kind == 'namespace':
        return [('__getattr__', ('x',)), ('__getattr__', ('y',))]
    if kind == 'value':
        return [('get', ())]
    if kind == 'thing':
        return [('items_copy', ()), ('bump', (0,))]


class Group:
    def __init__(self):
        from mc import histex
        from mpservice.multiprocessing.server_process import ServerProcess
        register()
        self.manager = ServerProcess()
        self.manager.start()
        self.agent = histex.Agent('agent')
        self.local = histex.LocalAgent()
        self.seq = 0

    def close(self):
        self.agent.close()
        self.local.close()
        self.manager.shutdown()

    def issue(self, who, name, method, args):
        """run one call through the given issuer; -> call_method result"""
        from mc import histex
        if method == '@managed_keep':
            # fetch another managed proxy of the same hosted value, THEN drop the previously kept one, then use the new one
            ag = self.agent if who == 'A' else self.local
            who = 'A' if who == 'A' else 'D'      # both driver threads share the driver's handles
            k = self.kept.get(who, 0) + 1
            ag.do('callget', name, 'get_items', (), f'kept{k}')
            if k > 1:
                ag.do('dropfast', f'kept{k - 1}')
                ag.do('gc')
            self.kept[who] = k
            return ag.do('call', f'kept{k}', '__len__', ())
        if method.startswith('@managed'):
            # two-step: fetch the managed proxy through get_items(), use it, drop it
            ag = self.agent if who == 'A' else self.local
            ag.do('callget', name, 'get_items', (), 'mgd')
            if method == '@managed_append':
                r = ag.do('call', 'mgd', 'append', args)
            else:
                r = ag.do('call', 'mgd', '__len__', ())
            ag.do('dropfast', 'mgd')
            return r
        if who == 'A':
            return self.agent.do('call', name, method, args)
        if who == 'D1':
            return self.local.do('call', name, method, args)
        box = {}

        def run():
            box['r'] = self.local.do('call', name, method, args)

        t = threading.Thread(target=run)
        t.start()
        t.join(60)
        if 'r' not in box:
            return ('raised', 'HANG', ('second driver thread did not return',), False, '')
        return box['r']

    def run_sequence(self, kind, seq, issuers):
        from mc import histex
        self.seq += 1
        name = f'o{self.seq}'
        proxy = make_hosted(self.manager, kind)
        self.local.handles[name] = proxy
        self.agent.do('unpickle', name, pickle.dumps(proxy))
        del proxy
        ref = make_reference(kind)
        self.kept = {}
        try:
            for i, ((opname, method, args), who) in enumerate(zip(seq, issuers)):
                got = self.issue(who, name, method, copy.deepcopy(args))
                if method == '@managed_append':
                    try:
                        ref.items.append(*args)
                        exp = ('value', None)
                    except Exception as e:
                        exp = ('raised', type(e).__name__, e.args)
                elif method in ('@managed_len', '@managed_keep'):
                    exp = ('value', len(ref.items))
                else:
                    exp = histex.call_method(ref, method, copy.deepcopy(args))
                v = compare(kind, opname, who, got, exp, [s[0] for s in seq[:i + 1]])
                if v:
                    return v
            # state visible through every proxy, from every process
            for method, args in snapshot_ops(kind):
                exp = histex.call_method(ref, method, args)
                for who in ('D1', 'A'):
                    got = self.issue(who, name, method, args)
                    v = compare(kind, 'snapshot:' + method, who, got, exp, [s[0] for s in seq])
                    if v:
                        return v
            # managed proxies that are still held must still be live (twice: the first request also flushes the server
            # thread's reference to the previous reply)
            for who, k in self.kept.items():
                ag = self.agent if who == 'A' else self.local
                for _ in range(2):
                    got = ag.do('call', f'kept{k}', '__len__', ())
                    v = compare(kind, 'kept-managed-proxy', who, got, ('value', len(ref.items)), [s[0] for s in seq])
                    if v:
                        return v
            return None
        finally:
            for who, k in self.kept.items():
                (self.agent if who == 'A' else self.local).do('dropfast', f'kept{k}')
            self.local.do('dropfast', name)
            self.agent.do('dropfast', name)
            if self.seq % 500 == 0:
                self.local.do('gc')
                self.agent.do('gc')


def compare(kind, opname, who, got, exp, hist):
    if exp[0] == 'value':
        if exp[1] is not None and isinstance(exp[1], tuple) and exp[1][:1] == ('UNPICKLABLE',):
            # the direct result cannot travel (e.g. a dict view): nothing to round-trip.  The proxy call may raise, or
            # return the view's content as a list; the connection must stay usable (the sequence goes on)
            if got[0] == 'value' and (exp[1][2] is None or got[1] != exp[1][2]):
                return (f'unpicklable-result-wrong:{opname}', f'{kind} {hist} via {who}: {got} vs content {exp[1][2]}')
            return None
        if got != exp and not (got[0] == 'value' and got[1] == exp[1]):
            return (f'wrong-result:{opname}', f'{kind} {hist} via {who}: proxy {got[:2]} vs direct {exp[:2]}')
        return None
    # exp raised
    if got[0] != 'raised':
        return (f'exception-lost:{opname}', f'{kind} {hist} via {who}: proxy returned {got}, direct call raises {exp[1:3]}')
    if got[1] != exp[1] or tuple(got[2]) != tuple(exp[2]):
        return (f'wrong-exception:{opname}', f'{kind} {hist} via {who}: proxy raised {got[1:3]}, direct call raises {exp[1:3]}')
    if not got[3] or 'Traceback' not in got[4]:
        return (f'no-remote-traceback:{opname}', f'{kind} {hist} via {who}: raised {got[1:3]} without server traceback: {got[3:]!r}')
    if opname.startswith('boom') and 'in boom' not in got[4]:
        return (f'traceback-does-not-name-method:{opname}', f'{got[4]!r}')
    return None


def group_worker(conn):
    g = Group()
    try:
        conn.send(('ready', None))
        while True:
            msg = conn.recv()
            if msg is None:
                break
            kind, items = msg
            out = []
            for seq, issuers in items:
                try:
                    out.append(g.run_sequence(kind, seq, issuers))
                except Exception as e:
                    import traceback
                    out.append(('harness-error:' + type(e).__name__, f'{[s[0] for s in seq]} {issuers}: {e}\n{traceback.format_exc()[-600:]}'))
            conn.send(('done', out))
    finally:
        try:
            g.close()
        except Exception:
            pass


ISSUERS = ('D1', 'D2', 'A')


def plans(tier):
    """(kind, depth, issuer vectors)"""
    quick = tier == 'quick'
    allpairs = list(itertools.product(ISSUERS, repeat=2))
    rot3 = [('D1', 'A', 'D2'), ('A', 'D2', 'D1')]
    out = []
    for kind in ('list', 'list_empty', 'dict', 'namespace', 'value', 'thing'):
        out.append((kind, 1, [(w,) for w in ISSUERS]))
        out.append((kind, 2, allpairs if kind not in ('list', 'dict') or not quick else [('D1', 'A'), ('A', 'D2'), ('D2', 'D1')]))
        if kind in ('namespace', 'value', 'thing'):
            out.append((kind, 3, rot3))
        elif not quick:
            out.append((kind, 3, rot3[:1]))
        if not quick:
            # thorough: one level deeper (containers with one value per parametrised operation, see run())
            out.append((kind, 4, [('D1', 'A', 'D2', 'D1')] if kind in ('list', 'list_empty', 'dict') else
                        [('D1', 'A', 'D2', 'D1'), ('A', 'D1', 'A', 'D2')]))
    if quick:
        out.append(('list_empty', 3, rot3[:1]))
    return out


def run(tier, seed, pool, t0):
    import multiprocessing

    from mc import report
    from mc.explore import ConfigStats
    ngroups = 8 if tier == 'quick' else 14
    ctx = multiprocessing.get_context('spawn')
    workers = []
    for _ in range(ngroups):
        a, b = ctx.Pipe()
        p = ctx.Process(target=group_worker, args=(b,))
        p.start()
        workers.append((p, a))
    for p, a in workers:
        if not a.poll(120):
            raise RuntimeError('manager group did not start')
        a.recv()
    stats = []
    try:
        for kind, depth, issuer_vectors in plans(tier):
            ops = ops_for(kind)
            if kind in ('list', 'list_empty', 'dict') and depth >= (3 if tier == 'quick' else 4):
                # reduced alphabet at depth 3 (thorough: 4): one value per parametrised operation
                seen = set()
                red = []
                for o in ops:
                    if o[0] not in seen:
                        seen.add(o[0])
                        red.append(o)
                ops = red
            cs = ConfigStats('sequences', dict(object=kind, depth=depth, issuers=len(issuer_vectors), alphabet=len(ops)))
            cs.t0 = time.time()
            items = [(list(seq), iv) for seq in itertools.product(ops, repeat=depth) for iv in issuer_vectors]
            chunks = [items[i::ngroups] for i in range(ngroups)]
            for (p, a), ch in zip(workers, chunks):
                a.send((kind, ch))
            for (p, a), ch in zip(workers, chunks):
                if not a.poll(3600):
                    raise RuntimeError('manager group timed out')
                tag, out = a.recv()
                for (seq, iv), v in zip(ch, out):
                    cs.execs += 1
                    cs.nodes += len(seq)
                    if len(seq) > 1:
                        cs.nontrivial += 1
                    if v is not None:
                        sig, detail = v
                        ent = cs.violations.get(sig)
                        if ent is None:
                            cs.violations[sig] = dict(count=1, choices=[[s[0] for s in seq], list(iv)], detail=detail, no_replay=True)
                        else:
                            ent['count'] += 1
                    else:
                        cs.outcomes['ok'] += 1
            cs.replayed = cs.execs
            cs.maxpoints = depth
            cs.samples = [dict(sequence=[s[0] for s in items[-1][0]], issuers=list(items[-1][1]))] if items else []
            cs.wall = time.time() - cs.t0
            stats.append(cs)
    finally:
        for p, a in workers:
            try:
                a.send(None)
            except Exception:
                pass
        for p, a in workers:
            p.join(30)
            if p.is_alive():
                p.kill()
    # fixed scenarios that need another manager configuration / a registered class of their own (real processes)
    import os
    import subprocess
    from mc.explore import PY, REPO, VERIF
    cs = ConfigStats('scenarios', dict(names=['custom_authkey_nested', 'managed_in_constructor']))
    cs.t0 = time.time()
    try:
        r = subprocess.run([PY, os.path.join(VERIF, 'checks', 'twins', 'c14_scenarios.py')], capture_output=True, text=True,
                           timeout=400, env=dict(os.environ, PYTHONPATH=os.path.join(REPO, 'src')), cwd='/')
        lines = [ln for ln in r.stdout.splitlines() if ln.startswith('SCENARIO ')]
    except subprocess.TimeoutExpired:
        lines = []
    seen_names = set()
    for ln in lines:
        _, nm, res = ln.split(' ', 2)
        seen_names.add(nm)
        cs.execs += 1
        cs.nodes += 1
        cs.nontrivial += 1
        if res == 'OK':
            cs.outcomes['ok'] += 1
        else:
            cs.violations['scenario-fails:' + nm] = dict(count=1, choices=[nm], detail=res, no_replay=True)
    for nm in cs.cfg['names']:
        if nm not in seen_names:
            cs.violations['scenario-fails:' + nm] = dict(count=1, choices=[nm], detail='the scenario program gave no verdict (watchdog)',
                                                         no_replay=True)
    cs.replayed = cs.execs
    cs.wall = time.time() - cs.t0
    stats.append(cs)
    return report.conclude(
        PROPERTY, 'checks.c14', tier, seed, stats, t0, pool,
        assumptions=['every RPC is synchronous, so the driver fully orders each history',
                     'argument alphabet {0, "a", (1, [2])}; sequences up to the stated depth per object type'],
        rule='complete enumeration of operation sequences up to the depth bound x issuer vectors (driver thread 1, driver '
             'thread 2, agent process), each executed on a fresh hosted object of a real ServerProcess and mirrored on a local '
             'reference object; non-trivial = sequence of length >= 2',
        explanation='states = operations executed through proxies against the real manager server; transitions = the same minus one per sequence; every sequence is an implementation trace mirrored on a local reference object.')
