"""Shared harness for the Server properties (C02, C04, C06, C07, C11-thread part).

A real mpservice Server with thread servlets is driven by caller threads (and optionally a stream consumer); worker
`call`s can be gated by an environment thread that releases them in every order; faults are injected in `call` and
`preprocess`.  The property-specific checks choose configurations and which oracles apply (``oracles``).

cfg keys
  topo       'single' | 'seq' | 'ens' | 'switch' | 'batch'
  nworkers   worker threads per servlet (default 1)
  capacity   server capacity
  calls      per caller thread: list of [x, timeout, backpressure]
  stream     None | dict(xs=[..], stop_after=None|k, timeout=..)
  gated      tags ('A', 'B') whose call waits for the environment
  env_wait   environment may wait for a further call to arrive before releasing one
  fail       {tag: [x, ..]} inputs whose call raises Boom(tag, x)
  prefail    {tag: [x, ..]} inputs rejected by the worker's preprocess
  fail_fast  ensemble flag
  ids        use the model identity allocator for request ids (fresh or any recycled id)
  rounds     enter/exit cycles (default 1); the same calls are issued in each round
  oracles    subset of {'answers', 'backlog', 'timeouts', 'timing', 'shutdown', 'errors', 'startup'}
             ('timing' = elapsed virtual time assertions; only sound when timers fire in deadline order while
             nothing else can run, i.e. with timers='free')
"""
from __future__ import annotations

import gc
import threading
import traceback
import weakref

from mc import sched
from mc.explore import Exec, Harness, default_verdict


class Boom(Exception):
    pass


def norm_exc(e):
    return ('EXC', type(e).__name__, tuple(norm_val(a) for a in e.args[:2]) if not type(e).__name__ == 'EnsembleError' else ())


def norm_val(v):
    if isinstance(v, BaseException):
        return norm_exc(v)
    if isinstance(v, (list, tuple)):
        return tuple(norm_val(a) for a in v)
    if type(v).__name__ == 'RemoteException':
        return norm_exc(v.exc)
    if isinstance(v, dict):
        return tuple(sorted((k, norm_val(a)) for k, a in v.items()))
    return v


class IdAllocator:
    """Every legal behaviour of id(): a fresh number, or the number of any object that no longer exists."""

    def __init__(self, s):
        self.s = s
        self.next = 1000
        self.known = {}     # model id -> weakref
        self.by_obj = {}    # real id -> model id while alive
        self.reused = 0

    def __call__(self, obj):
        rid = _real_id(obj)
        mid = self.by_obj.get(rid)
        if mid is not None and self.known[mid]() is obj:
            return mid
        gc.collect()
        free = sorted(m for m, ref in self.known.items() if ref() is None)
        c = self.s.choose(1 + len(free), 'id')
        if c == 0:
            self.next += 1
            mid = self.next
        else:
            mid = free[c - 1]
            self.reused += 1
        self.known[mid] = weakref.ref(obj)
        self.by_obj[rid] = mid
        return mid


_real_id = id


# The harness's own waits ("until the server is idle", "until helper threads that end by themselves are gone") must lie far
# outside every timer window used with timers='all' (<= 50 s): such a wait may only expire when nothing else can run, never as
# a scheduling deviation in the middle of the gather thread's work (that produced a false 'ledger-not-empty', see DESIGN 0.5)
HARNESS_WAIT = 400.0


class SrvExec(Exec):
    def __init__(self, cfg):
        self.cfg = cfg
        self.metrics = {'backlog': 0, 'waiting': 0, 'ids_reused': 0}
        self.server = None
        self.invocations = []    # (tag, argument) of every call()
        self.waiting = []
        self.open_streams = []
        self.released = set()
        self.state = {'stop': False, 'ncalls': 0}
        self.oracles = set(cfg.get('oracles', ['answers', 'shutdown']))
        self.ens_details = {}
        self._round = 0
        self._cur_round = 0

    # ------------------------------------------------------------------ workers
    def worker_cls(self, tag, batch=0):
        from mpservice.mpserver import Worker
        ex = self
        cfg = self.cfg
        fail = set(cfg.get('fail', {}).get(tag, []))
        prefail = set(cfg.get('prefail', {}).get(tag, []))
        gated = tag in cfg.get('gated', [])
        s = sched.S()

        def base(v):
            # original request value behind an intermediate value
            while isinstance(v, tuple) and len(v) == 2 and v[0] in ('A', 'B', 'C'):
                v = v[1]
            return v

        class W(Worker):
            def __init__(self, **kw):
                if batch:
                    super().__init__(batch_size=batch, batch_wait_time=cfg.get('batch_wait', 0.01) if batch > 1 else None, **kw)
                else:
                    super().__init__(**kw)
                if cfg.get('init_fail') == [tag, kw['worker_index']] and ex._round < cfg.get('init_fail_rounds', 10 ** 6):
                    raise Boom('init', tag, kw['worker_index'])

            def call(self, x):
                ex.invocations.append((tag, tuple(x) if batch else x, ex._round))
                ex.state['ncalls'] += 1
                if gated:
                    key = (tag, tuple(x) if batch else x)
                    ex.waiting.append(key)
                    if len(ex.waiting) > ex.metrics['waiting']:
                        ex.metrics['waiting'] = len(ex.waiting)
                    s.block(lambda: key in ex.released or ex.state['stop'], None, on='call-gate')
                if batch:
                    bad = [v for v in x if base(v) in fail]
                    if bad:
                        raise Boom(tag, tuple(base(v) for v in x))
                    return [(tag, v) for v in x]
                if base(x) in fail:
                    raise Boom(tag, base(x))
                return (tag, x)

        if prefail:
            def preprocess(self, x):
                if isinstance(x, BaseException) or type(x).__name__ == 'RemoteException':
                    # a user's preprocess works on its input; an upstream error must never get here
                    raise TypeError(f'preprocess received a non-input: {x!r}')
                if base(x) in prefail:
                    raise Boom('pre' + tag, base(x))
                return x
            W.preprocess = preprocess
        W.__name__ = f'W{tag}'
        return W

    def build_servlet(self):
        from mpservice.mpserver import EnsembleServlet, SequentialServlet, SwitchServlet, ThreadServlet
        cfg = self.cfg
        topo = cfg['topo']
        nw = cfg.get('nworkers', 1)
        if topo == 'single':
            return ThreadServlet(self.worker_cls('A'), num_threads=nw)
        if topo == 'batch':
            return ThreadServlet(self.worker_cls('A', batch=cfg.get('batch', 2)), num_threads=nw)
        if topo == 'seq':
            return SequentialServlet(ThreadServlet(self.worker_cls('A'), num_threads=nw),
                                     ThreadServlet(self.worker_cls('B'), num_threads=nw))
        if topo == 'ens':
            return EnsembleServlet(ThreadServlet(self.worker_cls('A'), num_threads=nw),
                                   ThreadServlet(self.worker_cls('B'), num_threads=nw),
                                   fail_fast=cfg.get('fail_fast', True))
        if topo == 'switch':
            class Sw(SwitchServlet):
                def switch(self, x):
                    return x % 2
            return Sw(ThreadServlet(self.worker_cls('A'), num_threads=nw), ThreadServlet(self.worker_cls('B'), num_threads=nw))
        raise ValueError(topo)

    # ------------------------------------------------------------------ reference
    def spec(self, x):
        """-> ('ok', value) | ('exc', name, args) for a request served without timeout."""
        cfg = self.cfg
        topo = cfg['topo']
        fail = {k: set(v) for k, v in cfg.get('fail', {}).items()}
        pre = {k: set(v) for k, v in cfg.get('prefail', {}).items()}

        def stage(tag, v):
            if x in pre.get(tag, ()):
                return Boom('pre' + tag, x)
            if x in fail.get(tag, ()):
                return Boom(tag, x)
            return (tag, v)

        if topo == 'single':
            y = stage('A', x)
        elif topo == 'batch':
            if x in pre.get('A', ()):
                return norm_val(Boom('preA', x))
            # exactly the members of the failing call() invocation fail (invocations are recorded by the worker)
            mine = [inv for tag, inv, rnd in self.invocations if x in inv and rnd == self._cur_round]
            if len(mine) != 1:
                return ('BAD-BATCHING', tuple(mine))
            if any(v in fail.get('A', ()) for v in mine[0]):
                return norm_val(Boom('A', tuple(mine[0])))
            return ('A', x)
        elif topo == 'seq':
            y = stage('A', x)
            if not isinstance(y, Boom):
                y = stage('B', y)
        elif topo == 'switch':
            y = stage('A' if x % 2 == 0 else 'B', x)
        elif topo == 'ens':
            ys = [stage('A', x), stage('B', x)]
            nerr = sum(isinstance(v, Boom) for v in ys)
            if (cfg.get('fail_fast', True) and nerr) or nerr == len(ys):
                return ('EXC', 'EnsembleError', ())
            return norm_val(ys)
        else:
            raise ValueError(topo)
        return norm_val(y)

    # ------------------------------------------------------------------ monitor
    def monitor(self, s):
        srv = self.server
        if srv is None:
            return None
        b = len(srv._uid_to_futures)
        if b > self.metrics['backlog']:
            self.metrics['backlog'] = b
        if 'backlog' in self.oracles and b > self.cfg['capacity']:
            return f'backlog {b} > capacity {self.cfg["capacity"]}'
        return None

    # ------------------------------------------------------------------ body
    def env(self):
        s = sched.S()
        cfg = self.cfg
        st = self.state
        can_wait = True
        while True:
            s.block(lambda: bool(self.waiting) or st['stop'], None, on='env-idle')
            if not self.waiting:
                return
            nopt = len(self.waiting) + (1 if cfg.get('env_wait') and can_wait and not st['stop'] else 0)
            c = s.choose(nopt, 'release')
            if c >= len(self.waiting):
                snap = st['ncalls']
                r = s.block(lambda: st['ncalls'] != snap or st['stop'], cfg.get('env_wait_t', 1.0), on='env-wait')
                can_wait = r != 'timeout' and not st['stop']
                continue
            can_wait = True
            key = self.waiting.pop(c)
            self.released.add(key)

    def one_call(self, server, spec):
        from mpservice._common import TimeoutError as MPTimeout
        from mpservice.mpserver import ServerBacklogFull
        x, timeout, bp = spec
        s = sched.S()
        t0 = s.now
        try:
            y = server.call(x, timeout=timeout, backpressure=bp)
            return (x, norm_val(y), None, t0, s.now)
        except MPTimeout:
            return (x, ('TIMEOUT',), None, t0, s.now)
        except ServerBacklogFull as e:
            return (x, ('BACKLOGFULL', e.args[1] is None), None, t0, s.now)
        except Exception as e:
            tb = ''.join(traceback.format_exception(type(e), e, e.__traceback__))
            if type(e).__name__ == 'EnsembleError':
                self.ens_details[x] = norm_val(e.args[1]['y'])
            return (x, norm_exc(e), tb, t0, s.now)

    def body(self):
        from mpservice.mpserver import Server
        import mpservice.mpserver._server as _server
        cfg = self.cfg
        s = sched.S()
        if cfg.get('ids'):
            alloc = IdAllocator(s)
            _server.id = alloc
            s.exit_hooks.append(lambda: _server.__dict__.pop('id', None))
        results = []
        rounds_info = []
        server = self.make_server()
        et = threading.Thread(target=self.env, name='env')
        et.start()
        try:
            self.run_rounds(server, results, rounds_info)
        finally:
            self.state['stop'] = True
            et.join()
        if cfg.get('ids'):
            self.metrics['ids_reused'] = alloc.reused
        return results, rounds_info

    def make_server(self):
        from mpservice.mpserver import Server
        return Server(self.build_servlet(), capacity=self.cfg['capacity'])

    def run_rounds(self, server, results, rounds_info):
        cfg = self.cfg
        s = sched.S()
        for rnd in range(cfg.get('rounds', 1)):
            self._round = rnd
            res = {}
            enter_exc = None
            try:
                server.__enter__()
            except Exception as e:
                enter_exc = norm_exc(e)
                self.settle()
                rounds_info.append(dict(enter_exc=enter_exc, alive=self.live(), gather_alive=None, backlog=None))
                results.append({})
                if 'init_fail_rounds' in cfg:
                    continue      # the fault is transient: the same server object is entered again
                break
            self.server = server
            gather = server._gather_thread
            backlog_at_enter = len(server._uid_to_futures)

            def caller(k, specs, res=res):
                out = []
                for spec in specs:
                    out.append(self.one_call(server, spec))
                res[k] = out

            def streamer(st_cfg, res=res):
                out = []
                try:
                    it = server.stream(iter(st_cfg['xs']), return_x=True, return_exceptions=st_cfg.get('rex', True),
                                       timeout=st_cfg.get('timeout', 1000))
                    for x, y in it:
                        out.append((x, norm_val(y)))
                        if st_cfg.get('stop_after') is not None and len(out) >= st_cfg['stop_after']:
                            break
                    if st_cfg.get('close') == 'after_exit':
                        # the consumer just walks away (`break` out of a for loop): the generator stays suspended and is only
                        # closed (garbage-collected) after the server has been left
                        self.open_streams.append(it)
                    else:
                        it.close()
                    out.append('END')
                except Exception as e:
                    out.append(('RAISED', norm_exc(e)))
                res['stream'] = out

            ts = [threading.Thread(target=caller, args=(k, specs), name=f'caller{chr(97 + k)}')
                  for k, specs in enumerate(cfg.get('calls', []))]
            if cfg.get('stream'):
                ts.append(threading.Thread(target=streamer, args=(cfg['stream'],), name='streamer'))
            for t in ts:
                t.start()
            for t in ts:
                t.join()
            if cfg.get('late_call') is not None:
                # one more request after everything else, with an unbounded deadline
                res['late'] = [self.one_call(server, [cfg['late_call'], 1000, False])]
            info = dict(enter_exc=None, gather_alive=gather.is_alive(), backlog_at_enter=backlog_at_enter)
            if cfg.get('drain_before_exit', True):
                # let the results of abandoned requests emerge: an idle server must have backlog 0
                s.block(lambda: not self.waiting and len(server._uid_to_futures) == 0, HARNESS_WAIT, on='idle-wait')
            info['backlog'] = len(server._uid_to_futures) if cfg.get('drain_before_exit', True) else 0
            server.__exit__(None, None, None)
            self.server = None
            for it in self.open_streams:
                tc = s.now
                it.close()
                info['close_after_exit'] = max(info.get('close_after_exit', 0), s.now - tc)
            self.open_streams = []
            self.settle()
            info['alive'] = self.live()
            results.append(res)
            rounds_info.append(info)

    def settle(self):
        # helper threads that end by themselves a moment later (e.g. the logger thread of a worker process, which ends
        # when the end of the child's log stream arrives) are not leaks: give them 5 virtual seconds
        s = sched.S()
        s.block(lambda: not self.live(), HARNESS_WAIT, on='settle')

    def live(self):
        s = sched.S()
        me = s.me()
        return sorted(sched.base_name(t.name) for t in s.threads
                      if t is not me and t.state != sched.FINISHED and t.name != 'env')

    # ------------------------------------------------------------------ verdict
    def verdict(self, r):
        cfg = self.cfg
        orc = self.oracles
        v = default_verdict(r)
        if v:
            kind = v[0].split(':')[0]
            if kind == 'invariant':
                return v if 'backlog' in orc else None
            if kind in ('deadlock', 'livelock'):
                return v if ('shutdown' in orc or 'answers' in orc or 'timeouts' in orc) else None
            return v
        results, rounds = r.value
        for rnd, (res, info) in enumerate(zip(results, rounds)):
            self._cur_round = rnd
            for k, outs in res.items():
                if k == 'stream':
                    v = self.check_stream(outs)
                    if v:
                        return v
                    continue
                for (x, got, tb, t0, t1) in outs:
                    v = self.check_call(k, x, got, tb, t0, t1)
                    if v:
                        return v
        if 'init_fail_rounds' in cfg and 'startup' in orc:
            for rnd, info in enumerate(rounds):
                failed = info.get('enter_exc') is not None
                if failed != (rnd < cfg['init_fail_rounds']):
                    return ('enter-wrong-after-failed-enter', f'round {rnd}: {info}; all rounds: {rounds}')
            if len(rounds) != cfg.get('rounds', 1):
                return ('rounds-missing', repr(rounds))
        for info in rounds:
            if info.get('enter_exc') is not None:
                if 'startup' in orc:
                    if cfg.get('init_fail') is None:
                        return ('enter-raised', repr(info))
                    if info['enter_exc'][1] != 'Boom':
                        return ('enter-wrong-error', repr(info))
                    if info['alive']:
                        return ('leak-after-failed-start:' + ','.join(info['alive']), repr(info))
                continue
            if 'startup' in orc and cfg.get('init_fail') is not None and 'init_fail_rounds' not in cfg:
                return ('enter-did-not-raise', repr(info))
            if 'shutdown' in orc or 'timeouts' in orc:
                if info['gather_alive'] is False:
                    return ('gather-thread-dead', f'gather thread died before shutdown: {r.thread_excs} {info}')
            if 'shutdown' in orc and info.get('backlog_at_enter'):
                return ('stale-ledger-entries-at-enter', f'the server was entered again with {info["backlog_at_enter"]} request(s) '
                        'of the previous round still in its ledger (they occupy slots for ever)')
            if 'shutdown' in orc and info.get('loop_shutdown_took', 0) > 60:
                return ('event-loop-shutdown-stalls', f'after the server was left, asyncio.run() needed {info["loop_shutdown_took"]:.1f} '
                        'virtual seconds to finalize the abandoned stream (its feeder task sat in a wait that nothing satisfies)')
            if 'shutdown' in orc and info.get('close_after_exit', 0) > 60:
                return ('abandoned-stream-close-stalls-after-exit',
                        f'closing the abandoned stream after Server.__exit__ took {info["close_after_exit"]:.1f} virtual seconds '
                        '(its feeder thread sat in a wait that nothing will ever satisfy)')
            if 'shutdown' in orc and info['alive']:
                return ('thread-leak:' + ','.join(info['alive']), f'threads alive after __exit__: {info["alive"]}')
            if ('backlog' in orc or 'answers' in orc) and info['backlog'] != 0:
                return ('ledger-not-empty', f'idle server has backlog {info["backlog"]}')
        return None

    def call_spec(self, k, x):
        for specs in ([s_ for specs in self.cfg.get('calls', []) for s_ in specs]):
            if specs[0] == x:
                return specs
        return [x, 1000, False]

    def check_call(self, k, x, got, tb, t0, t1):
        cfg = self.cfg
        orc = self.oracles
        x_, timeout, bp = self.call_spec(k, x)
        want = self.spec(x)
        if got == ('TIMEOUT',):
            if timeout >= 100:
                if 'answers' in orc or 'timeouts' in orc:
                    return ('lost-response', f'call({x}) with unbounded deadline timed out; expected {want}')
                return None
            if 'timing' in orc and t1 - t0 > timeout + 1e-6:
                return ('timeout-late', f'call({x}) timeout {timeout} raised after {t1 - t0}')
            return None
        if got[0] == 'BACKLOGFULL':
            immediate = got[1]
            if ('timeouts' in orc or 'answers' in orc) and timeout >= 100 and not bp:
                return ('request-starved', f'call({x}) without backpressure and with an unbounded deadline was never admitted '
                        f'(ServerBacklogFull after waiting {t1 - t0:.1f} s)')
            if 'backlog' in orc:
                if bp and not immediate:
                    return ('backpressure-waited', f'call({x}, backpressure=True) waited before ServerBacklogFull')
                if not bp and immediate:
                    return ('no-backpressure-rejected-at-once', f'call({x})')
                if not bp and 'timing' in orc and t1 - t0 > timeout + 1e-6:
                    return ('enqueue-wait-too-long', f'call({x}) waited {t1 - t0} > timeout {timeout}')
                if len(cfg.get('calls', [])) + (1 if cfg.get('stream') else 0) <= cfg['capacity'] and not cfg.get('stream'):
                    n_total = sum(len(c) for c in cfg['calls'])
                    if len(cfg['calls']) <= cfg['capacity']:
                        return ('spurious-backlog-full', f'call({x}) rejected although at most {len(cfg["calls"])} '
                                f'requests can be in flight with capacity {cfg["capacity"]}')
            return None
        if ('timeouts' in orc or 'answers' in orc) and timeout >= 100 and t1 - t0 > 500:
            # no finite deadline in any harness exceeds 50 virtual seconds, and far timers only fire when nothing else can
            # run: a request that took this long sat waiting although the server was idle (lost wake-up)
            return ('request-stalled', f'call({x}) with an unbounded deadline was only answered after {t1 - t0:.1f} virtual '
                    f'seconds: it waited although nothing else was going on')
        # a value or an exception: must be this request's own outcome
        if 'answers' in orc or 'errors' in orc or 'timeouts' in orc:
            if got != want:
                return ('wrong-answer', f'call({x}) -> {got}, expected {want}')
            if 'errors' in orc and got[0] == 'EXC' and got[1] == 'EnsembleError':
                # members recorded in the error are this request's own member outcomes (None = not yet reported)
                fail = {k: set(v) for k, v in cfg.get('fail', {}).items()}
                own = [norm_val(Boom(t, x)) if x in fail.get(t, ()) else (t, x) for t in ('A', 'B')]
                ys = self.ens_details.get(x)
                if ys is None or len(ys) != 2 or any(y is not None and y != o for y, o in zip(ys, own)) \
                        or not any(y is not None and y[0] == 'EXC' for y in ys):
                    return ('ensemble-error-wrong-members', f'call({x}) EnsembleError carries {ys}, own member outcomes {own}')
                if not cfg.get('fail_fast', True) and any(y is None for y in ys):
                    return ('ensemble-error-incomplete', f'call({x}) without fail_fast carries {ys}')
            if 'errors' in orc and got[0] == 'EXC' and got[1] == 'Boom':
                if not tb or ('in call' not in tb and 'in preprocess' not in tb):
                    return ('traceback-lost', f'call({x}) raised {got} without the traceback of the failure site: {tb!r}')
        return None

    def check_stream(self, outs):
        cfg = self.cfg
        st = cfg['stream']
        orc = self.oracles
        if not ('answers' in orc or 'errors' in orc or 'timeouts' in orc):
            return None
        xs = st['xs']
        k = st.get('stop_after')
        exp = []
        for x in xs:
            exp.append((x, self.spec(x)))
            if k is not None and len(exp) >= k:
                break
        if outs and outs[-1] == 'END':
            got = outs[:-1]
            if got != exp:
                return ('stream-wrong', f'stream yielded {got}, expected {exp}')
            return None
        return ('stream-raised', f'stream ended with {outs[-1] if outs else None}; yielded {outs[:-1]}')


class ASrvExec(SrvExec):
    """Same scenarios on AsyncServer: the body thread runs a virtual event loop; callers are tasks."""

    def make_server(self):
        from mpservice.mpserver import AsyncServer
        return AsyncServer(self.build_servlet(), capacity=self.cfg['capacity'])

    async def one_acall(self, server, spec):
        from mpservice._common import TimeoutError as MPTimeout
        from mpservice.mpserver import ServerBacklogFull
        x, timeout, bp = spec
        s = sched.S()
        t0 = s.now
        try:
            y = await server.call(x, timeout=timeout, backpressure=bp)
            return (x, norm_val(y), None, t0, s.now)
        except MPTimeout:
            return (x, ('TIMEOUT',), None, t0, s.now)
        except ServerBacklogFull as e:
            return (x, ('BACKLOGFULL', e.args[1] is None), None, t0, s.now)
        except Exception as e:
            tb = ''.join(traceback.format_exception(type(e), e, e.__traceback__))
            if type(e).__name__ == 'EnsembleError':
                self.ens_details[x] = norm_val(e.args[1]['y'])
            return (x, norm_exc(e), tb, t0, s.now)

    def run_rounds(self, server, results, rounds_info):
        import asyncio
        cfg = self.cfg
        s = sched.S()

        async def main():
            for rnd in range(cfg.get('rounds', 1)):
                self._round = rnd
                res = {}
                try:
                    await server.__aenter__()
                except Exception as e:
                    rounds_info.append(dict(enter_exc=norm_exc(e), alive=self.live(), gather_alive=None, backlog=None))
                    break
                self.server = server
                gather = server._gather_thread
                backlog_at_enter = len(server._uid_to_futures)

                async def caller(k, specs):
                    out = []
                    for spec in specs:
                        out.append(await self.one_acall(server, spec))
                    res[k] = out

                async def streamer(st_cfg):
                    out = []

                    async def src():
                        for x in st_cfg['xs']:
                            yield x
                    try:
                        it = server.stream(src(), return_x=True, return_exceptions=st_cfg.get('rex', True),
                                           timeout=st_cfg.get('timeout', 1000))
                        async for x, y in it:
                            out.append((x, norm_val(y)))
                            if st_cfg.get('stop_after') is not None and len(out) >= st_cfg['stop_after']:
                                break
                        if st_cfg.get('close') == 'after_exit':
                            self.open_streams.append(it)
                        else:
                            await it.aclose()
                        out.append('END')
                    except Exception as e:
                        out.append(('RAISED', norm_exc(e)))
                    res['stream'] = out

                tasks = [asyncio.ensure_future(caller(k, specs)) for k, specs in enumerate(cfg.get('calls', []))]
                if cfg.get('stream'):
                    tasks.append(asyncio.ensure_future(streamer(cfg['stream'])))
                await asyncio.gather(*tasks)
                if cfg.get('late_call') is not None:
                    res['late'] = [await self.one_acall(server, [cfg['late_call'], 1000, False])]
                info = dict(enter_exc=None, gather_alive=gather.is_alive(), backlog_at_enter=backlog_at_enter)
                if cfg.get('drain_before_exit', True):
                    t_end = s.now + 50.0
                    while (self.waiting or len(server._uid_to_futures)) and s.now < t_end:
                        await asyncio.sleep(0.5)
                info['backlog'] = len(server._uid_to_futures) if cfg.get('drain_before_exit', True) else 0
                await server.__aexit__(None, None, None)
                self.server = None
                for it in self.open_streams:
                    tc = s.now
                    await it.aclose()
                    info['close_after_exit'] = max(info.get('close_after_exit', 0), s.now - tc)
                self.open_streams = []
                info['alive'] = self.live()
                results.append(res)
                rounds_info.append(info)

        t_main = [None]

        async def timed_main():
            await main()
            t_main[0] = s.now

        asyncio.run(timed_main())
        # asyncio.run() finalizes the async generators that are still open and waits for them
        if rounds_info:
            rounds_info[-1]['loop_shutdown_took'] = s.now - t_main[0]


def async_server_codes():
    import mpservice.mpserver._server as _server
    codes = []
    for f in (_server.AsyncServer._enqueue, _server.AsyncServer._wait_for_result, _server.AsyncServer._gather_output):
        codes += sched.all_codes(f)
    return codes


class ASrvHarness(Harness):
    name = 'asrv'
    opts = dict(max_points=8000, timers='free', max_timer_fires=600)
    exec_cls = ASrvExec

    def setup(self):
        from mc import vloop
        vloop.install()
        return async_server_codes()

    def new(self, cfg):
        return self.exec_cls(cfg)


def server_codes(ensemble=False, worker=False, switch=False):
    import mpservice.mpserver._server as _server
    import mpservice.mpserver._servlet as _servlet
    import mpservice.mpserver._worker as _worker
    codes = []
    for f in (_server.Server._enqueue, _server.Server._wait_for_result, _server.Server._gather_output):
        codes += sched.all_codes(f)
    if ensemble:
        for f in (_servlet.EnsembleServlet._enqueue, _servlet.EnsembleServlet._dequeue):
            codes += sched.all_codes(f)
    if switch:
        codes += sched.all_codes(_servlet.SwitchServlet._enqueue)
    if worker:
        for f in (_worker.Worker._start_single, _worker.Worker._start_batch):
            codes += sched.all_codes(f)
    return codes


class SrvHarness(Harness):
    name = 'srv'
    opts = dict(max_points=6000, timers='free', max_timer_fires=400)
    trace = dict()
    exec_cls = SrvExec

    def setup(self):
        return server_codes(**self.trace)

    def new(self, cfg):
        return self.exec_cls(cfg)
