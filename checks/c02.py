"""C02  Server answers every request with its own result (no cross-talk).

Real Server with thread servlets in every composition (single with 1-2 workers, sequential, ensemble with and without
fail_fast, switch, batching worker) driven by concurrent callers and a stream; inputs are distinct tags and every stage
tags its output, so any cross-talk is visible.  Workers of some stages are gated by an environment thread that releases
them in every order (reordering inside the server).  The 'ids' harness replaces id() in the server module by a model
allocator that returns a fresh number or ANY recycled one (every legal behaviour of the allocator).
Oracle: each call returns exactly spec(x) or its own documented exception; exactly one outcome per request; stream in
input order; generous virtual deadlines, so a TimeoutError is a lost response; ledger empty at the end.
"""
from __future__ import annotations

from . import srv

PROPERTY = 'C02'
O = ['answers', 'shutdown']
BIG = 1000


class Answers(srv.SrvHarness):
    name = 'answers'
    opts = dict(max_points=8000, timers='free', max_timer_fires=600)
    trace = dict(ensemble=True, switch=True)

    def configs(self, tier):
        quick = tier == 'quick'
        d1 = 1 if quick else 2
        cap = 100000 if quick else 1000000
        out = []
        # (a) single servlet, 2 callers x 1-2 calls, capacity 1-2 (targets put-before-record)
        out.append(dict(topo='single', capacity=1, calls=[[[0, BIG, False], [1, BIG, False]], [[2, BIG, False]]],
                        oracles=O, bound=2 if quick else 3, cap=cap * 2))
        out.append(dict(topo='single', capacity=2, nworkers=2, gated=['A'], env_wait=True,
                        calls=[[[0, BIG, False], [1, BIG, False]], [[2, BIG, False]]], oracles=O, bound=d1, cap=cap))
        # a request rejected by the worker's preprocess, followed by overlapping requests
        out.append(dict(topo='single', capacity=3, prefail={'A': [0]}, calls=[[[0, BIG, False], [1, BIG, False]], [[2, BIG, False], [3, BIG, False]]],
                        oracles=O, bound=d1, cap=cap))
        out.append(dict(topo='seq', capacity=3, prefail={'B': [1]}, calls=[[[0, BIG, False]], [[1, BIG, False]], [[2, BIG, False]]],
                        oracles=O, bound=d1, cap=cap))
        # a saturated server: two callers wait for a slot at the same time and are admitted together
        out.append(dict(topo='single', capacity=2, nworkers=2, gated=['A'], env_wait=True,
                        calls=[[[0, BIG, False]], [[1, BIG, False]], [[2, BIG, False]], [[3, BIG, False]]], oracles=O,
                        bound=0 if quick else 1, cap=cap))
        # (b) sequential, two workers per stage, reordering inside
        out.append(dict(topo='seq', capacity=3, nworkers=2, gated=['A'], env_wait=True,
                        calls=[[[0, BIG, False]], [[1, BIG, False]], [[2, BIG, False]]], oracles=O, bound=d1, cap=cap))
        out.append(dict(topo='seq', capacity=3, nworkers=2, gated=['B'], fail={'A': [1]},
                        calls=[[[0, BIG, False]], [[1, BIG, False]], [[2, BIG, False]]], oracles=O, bound=d1, cap=cap))
        # (c) ensemble
        for ff in (True, False):
            out.append(dict(topo='ens', capacity=3, fail_fast=ff, gated=['B'], fail={'A': [1]},
                            calls=[[[0, BIG, False]], [[1, BIG, False]], [[2, BIG, False]]], oracles=O, bound=d1, cap=cap))
        # (d) switch
        out.append(dict(topo='switch', capacity=3, gated=['A'], calls=[[[0, BIG, False], [3, BIG, False]], [[1, BIG, False], [2, BIG, False]]],
                        oracles=O, bound=d1, cap=cap))
        # (e) batching worker
        out.append(dict(topo='batch', batch=2, capacity=3, calls=[[[0, BIG, False]], [[1, BIG, False]], [[2, BIG, False]]],
                        oracles=O, bound=d1, cap=cap))
        # (f) stream next to a caller
        out.append(dict(topo='seq', capacity=2, nworkers=2, gated=['A'], calls=[[[10, BIG, False]]],
                        stream=dict(xs=[0, 1, 2]), oracles=O, bound=d1, cap=cap))
        out.append(dict(topo='single', capacity=2, calls=[[[10, BIG, False]]], stream=dict(xs=[0, 1, 2]), oracles=O,
                        bound=d1, cap=cap))
        return out


class Ids(srv.SrvHarness):
    """request ids from the model allocator; fail-fast ensemble whose slow member is still busy with an answered request"""
    name = 'ids'
    opts = dict(max_points=8000, timers='free', max_timer_fires=600)
    trace = dict(ensemble=True)

    def configs(self, tier):
        quick = tier == 'quick'
        cap = 100000 if quick else 1000000
        out = []
        # request 1 fails fast in member A while member B (gated) still works on it; later requests may recycle its id
        out.append(dict(topo='ens', capacity=3, nworkers=2, fail_fast=True, gated=['B'], fail={'A': [1]}, ids=True, env_wait=True, env_wait_t=0.012,
                        calls=[[[1, BIG, False], [5, BIG, False], [6, BIG, False]]], oracles=O, bound=0 if quick else 1, cap=cap))
        out.append(dict(topo='ens', capacity=3, nworkers=2, fail_fast=True, gated=['B'], fail={'A': [1]}, ids=True, env_wait=True, env_wait_t=0.012,
                        calls=[[[1, BIG, False], [5, BIG, False]], [[7, BIG, False]]], oracles=O, bound=0 if quick else 1, cap=cap))
        out.append(dict(topo='single', capacity=2, ids=True, calls=[[[0, BIG, False], [1, BIG, False], [2, BIG, False]]],
                        oracles=O, bound=1, cap=cap))
        return out


class AsyncAnswers(srv.ASrvHarness):
    """the same oracle on AsyncServer (callers are tasks on a virtual event loop; gather / worker threads are real threads)"""
    name = 'async_answers'

    def configs(self, tier):
        quick = tier == 'quick'
        d = 1 if quick else 2
        cap = 60000 if quick else 600000
        four = [[[0, BIG, False]], [[1, BIG, False]], [[2, BIG, False]], [[3, BIG, False]]]
        return [
            dict(topo='single', capacity=2, nworkers=2, gated=['A'], env_wait=True, calls=four, oracles=O, bound=0 if quick else 1, cap=cap),
            dict(topo='single', capacity=2, calls=four, oracles=O, bound=d, cap=cap),
            dict(topo='seq', capacity=3, nworkers=2, gated=['A'], env_wait=True, fail={'B': [1]},
                 calls=[[[0, BIG, False]], [[1, BIG, False]], [[2, BIG, False]]], oracles=O, bound=d, cap=cap),
            dict(topo='ens', capacity=3, fail_fast=True, gated=['B'], fail={'A': [1]},
                 calls=[[[0, BIG, False]], [[1, BIG, False]], [[2, BIG, False]]], oracles=O, bound=d, cap=cap),
            dict(topo='single', capacity=2, calls=[[[10, BIG, False]]], stream=dict(xs=[0, 1, 2]), oracles=O, bound=d, cap=cap),
        ]


from . import c11  # noqa: E402


class ProcAnswers(c11.PHarness):
    """servlet trees with worker PROCESSES behind the simulated process boundary; two workers per process servlet, gated by the
    environment so that requests overtake each other inside the server"""
    name = 'proc_answers'

    def configs(self, tier):
        quick = tier == 'quick'
        d = 0 if quick else 1
        cap = 60000 if quick else 600000
        three = [[[0, BIG, False]], [[1, BIG, False]], [[2, BIG, False]]]
        return [
            dict(ptopo='P', topo='single', nworkers=2, capacity=3, gated=['A'], env_wait=True, calls=three, oracles=O, bound=d, cap=cap),
            dict(ptopo='PT', topo='seq', nworkers=2, capacity=3, gated=['A'], env_wait=True, calls=three, oracles=O, bound=d, cap=cap),
            dict(ptopo='PP', topo='seq', nworkers=2, capacity=3, gated=['B'], env_wait=True, fail={'A': [1]}, calls=three, oracles=O, bound=d, cap=cap),
            dict(ptopo='ensTP', topo='ens', capacity=3, gated=['B'], fail_fast=True, fail={'A': [1]}, calls=three, oracles=O, bound=d, cap=cap),
            dict(ptopo='P', topo='single', nworkers=2, capacity=2, gated=['A'], calls=[[[10, BIG, False]]], stream=dict(xs=[0, 1, 2]),
                 oracles=O, bound=d, cap=cap),
        ]


HARNESSES = {'answers': Answers, 'ids': Ids, 'async_answers': AsyncAnswers, 'proc_answers': ProcAnswers}
PLAN = {'quick': ['answers', 'ids', 'async_answers', 'proc_answers'], 'thorough': ['answers', 'ids', 'async_answers', 'proc_answers']}
