"""Free-running conformance twin for C20: a real spawned child logs N records of a given size; the parent's handler must
receive all of them, in order, and join()/result() must return (watchdog in the caller)."""
import logging
import sys


def emit(n, size):
    lg = logging.getLogger('child.mod')
    for i in range(n):
        lg.warning('rec %d %s', i, 'x' * size)
    return n


def main():
    from mpservice.multiprocessing import Process
    n, size = int(sys.argv[1]), int(sys.argv[2])
    got = []

    class H(logging.Handler):
        def emit(self, record):
            got.append(record.getMessage())

    root = logging.getLogger()
    root.addHandler(H())
    root.setLevel(logging.INFO)
    p = Process(target=emit, args=(n, size))
    p.start()
    r = p.result()
    del p
    import gc
    gc.collect()
    exp = ['rec %d %s' % (i, 'x' * size) for i in range(n)]
    if r != n or got != exp:
        print(f'TWIN-MISMATCH result={r} handled={len(got)} of {n}')
        sys.exit(1)
    print(f'TWIN-OK {n} records of {size} bytes')


if __name__ == '__main__':
    main()
