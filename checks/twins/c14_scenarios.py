"""Fixed scenarios for C14 on a real ServerProcess that the sequence enumeration does not reach (they need another manager
configuration or a registered class of their own).  Prints one line per scenario: 'SCENARIO <name> OK' or
'SCENARIO <name> FAIL <what>'; a watchdog turns a hang into FAIL."""
import sys
import threading


class InitManaged:
    """a hosted object that creates its managed parts in its constructor"""

    def __init__(self):
        from mpservice.multiprocessing.server_process import managed_list
        self.items = managed_list([1, 2])

    def n(self):
        return len(self.items)

    def get(self):
        return self.items


def with_watchdog(fn, seconds=60):
    box = {}

    def run():
        try:
            box['r'] = fn()
        except BaseException as e:
            box['r'] = f'raised {type(e).__name__}: {e}'[:200]
    t = threading.Thread(target=run, daemon=True)
    t.start()
    t.join(seconds)
    return box.get('r', f'no answer within {seconds} s (hang)')


def custom_authkey_nested():
    """with a manager that has its own authkey: a proxy stored in a hosted container and read back must work"""
    from mpservice.multiprocessing.server_process import ServerProcess
    with ServerProcess(authkey=b'abc') as m:
        lst = m.list()
        dct = m.dict({'a': 1})
        lst.append(dct)
        x = lst[0]
        if x['a'] != 1:
            return 'wrong value through the nested proxy'
        x['b'] = 2
        if dct['b'] != 2:
            return 'mutation through the nested proxy not visible'
    return True


def managed_in_constructor():
    from mpservice.multiprocessing.server_process import ServerProcess
    if 'InitManaged' not in ServerProcess._registry:
        ServerProcess.register('InitManaged', InitManaged)
    m = ServerProcess()
    m.start()
    try:
        def go():
            h = m.InitManaged()
            if h.n() != 2:
                return 'wrong length'
            p = h.get()
            p.append(3)
            return True if h.n() == 3 else 'mutation through the managed part not visible'
        return with_watchdog(go)
    finally:
        # (a deadlocked server cannot shut down politely)
        proc = m._process
        t = threading.Thread(target=m.shutdown, daemon=True)
        t.start()
        t.join(5)
        if proc.is_alive():
            proc.kill()


def main():
    import os
    for name, fn in (('custom_authkey_nested', custom_authkey_nested), ('managed_in_constructor', managed_in_constructor)):
        r = with_watchdog(fn, 120)
        print(f'SCENARIO {name} ' + ('OK' if r is True else f'FAIL {r}'), flush=True)
    os._exit(0)


if __name__ == '__main__':
    main()
