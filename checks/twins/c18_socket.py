"""End-to-end conformance run over a real unix socket: the whole payload alphabet (incl. a multi-megabyte blob) and 40
concurrent requests with unequal handler latencies multiplexed over 2 connections; stream preserves order."""
import asyncio
import os
import sys
import tempfile
import threading
import time


class Boom(Exception):
    pass


def payloads():
    return [b'', b'a\nb\n\n', b'7 3 pickle\nabc', 'héllo\n', {'k': [1, (2, b'\n'), None]}, 0, b'\n7 3 pickle\n' * 200000]


async def echo(x):
    return ('echo', x)


async def slow(x):
    await asyncio.sleep(0.001 * ((x * 7) % 13))
    if x == 17:
        raise Boom('handler', x)
    return ('slow', x)


def serve(path):
    from mpservice.socket import SocketApplication, SocketServer
    app = SocketApplication()
    app.add_route('/echo', echo)
    app.add_route('/slow', slow)
    server = SocketServer(app, path=path, backlog=8)
    asyncio.run(server.serve())


def main():
    from mpservice.socket import SocketClient
    d = tempfile.mkdtemp(prefix='c18sock_')
    path = os.path.join(d, 's')
    th = threading.Thread(target=serve, args=(path,), daemon=True)
    th.start()
    bad = []
    n = 0
    with SocketClient(path=path, num_connections=2) as client:
        for p in payloads():
            y = client.request('/echo', p, response_timeout=60)
            n += 1
            if y != ('echo', p):
                bad.append(f'echo of {repr(p)[:40]} -> {repr(y)[:80]}')
        res = {}

        def req(x):
            try:
                res[x] = client.request('/slow', x, response_timeout=60)
            except Boom as e:
                res[x] = ('boom', e.args)

        ts = [threading.Thread(target=req, args=(x,)) for x in range(40)]
        for t in ts:
            t.start()
        for t in ts:
            t.join(60)
        for x in range(40):
            exp = ('boom', ('handler', 17)) if x == 17 else ('slow', x)
            n += 1
            if res.get(x) != exp:
                bad.append(f'request {x} -> {res.get(x)}')
        out = list(client.stream('/slow', [x for x in range(30) if x != 17], return_x=True))
        n += 1
        if out != [(x, ('slow', x)) for x in range(30) if x != 17]:
            bad.append(f'stream out of order / wrong: {out[:6]}')
        client.request('/shutdown', response_timeout=0)
    if bad:
        print('TWIN-MISMATCH', '; '.join(bad[:5]))
        os._exit(1)
    print('TWIN-OK', n, 'socket requests')
    sys.stdout.flush()
    os._exit(0)


if __name__ == '__main__':
    main()
