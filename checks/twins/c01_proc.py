"""Free-running conformance twin for C01 / C05 / C08: Stream.parmap with executor='process' on real worker processes.

The exploration (fifo_env) enumerates every completion order ANY executor can produce for fifo_stream, which only sees
futures; this twin binds the ProcessPoolExecutor wiring of Parmapper to that model: same outputs as the reference for a
small grid of (concurrency, length, return_x, return_exceptions, failing element, per-element delays that invert the
completion order), and after an early stop / a failure no worker process of the pool is left.
Usage: c01_proc.py order|stop
"""
import multiprocessing
import sys
import time


class Boom(Exception):
    pass


def work(x, fail=None, slow=None):
    if slow is not None and x == slow:
        time.sleep(0.3)        # this element completes after its successors
    if x == fail:
        raise Boom('func', x)
    return x * 10


def norm(v):
    if isinstance(v, tuple):
        return tuple(norm(e) for e in v)
    if isinstance(v, BaseException):
        return ('EXC', type(v).__name__, tuple(v.args))
    return v


def reference(n, rx, rex, fail):
    out = []
    for x in range(n):
        y = Boom('func', x) if x == fail else x * 10
        if isinstance(y, Boom) and not rex:
            out.append(('RAISED',) + norm(y))
            return out
        out.append(norm((x, y) if rx else y))
    return out


def children_gone(deadline=10.0):
    t0 = time.time()
    while time.time() - t0 < deadline:
        if not multiprocessing.active_children():
            return True
        time.sleep(0.05)
    return False


def run_order():
    from mpservice.streamer import Stream
    bad = []
    n_cases = 0
    for conc in (1, 2, 3):
        for n in (0, 1, 5):
            for rx, rex in ((False, False), (True, True)):
                for fail in (None, 1):
                    for slow in (None, 0):
                        if n == 0 and (fail is not None or slow is not None):
                            continue
                        n_cases += 1
                        out = []
                        try:
                            for z in Stream(range(n)).parmap(work, executor='process', concurrency=conc, return_x=rx,
                                                             return_exceptions=rex, fail=fail, slow=slow):
                                out.append(norm(z))
                        except Boom as e:
                            out.append(('RAISED',) + norm(e))
                        exp = reference(n, rx, rex, fail if fail is not None and fail < n else None)
                        if out != exp:
                            bad.append(f'conc={conc} n={n} rx={rx} rex={rex} fail={fail} slow={slow}: got {out}, expected {exp}')
                        if not children_gone():
                            bad.append(f'conc={conc} n={n}: worker processes left after the stream ended: '
                                       f'{multiprocessing.active_children()}')
    return n_cases, bad


def run_stop():
    from mpservice.streamer import Stream
    bad = []
    n_cases = 0
    for conc in (1, 2):
        for stop_after in (1, 2):
            n_cases += 1
            it = iter(Stream(range(50)).parmap(work, executor='process', concurrency=conc))
            got = []
            for z in it:
                got.append(z)
                if len(got) >= stop_after:
                    break
            t0 = time.time()
            it.close()
            if time.time() - t0 > 20:
                bad.append(f'conc={conc} stop_after={stop_after}: close() took {time.time() - t0:.1f} s')
            if got != [x * 10 for x in range(stop_after)]:
                bad.append(f'conc={conc} stop_after={stop_after}: got {got}')
            if not children_gone():
                bad.append(f'conc={conc} stop_after={stop_after}: worker processes left after close(): '
                           f'{multiprocessing.active_children()}')
        # a failure with return_exceptions=False
        n_cases += 1
        out = []
        try:
            for z in Stream(range(50)).parmap(work, executor='process', concurrency=conc, fail=2):
                out.append(z)
        except Boom as e:
            out.append(('RAISED', e.args))
        if out != [0, 10, ('RAISED', ('func', 2))]:
            bad.append(f'conc={conc} failing element: got {out}')
        if not children_gone():
            bad.append(f'conc={conc} failing element: worker processes left: {multiprocessing.active_children()}')
    return n_cases, bad


def main():
    mode = sys.argv[1]
    n, bad = run_order() if mode == 'order' else run_stop()
    if bad:
        print('TWIN-MISMATCH ' + '; '.join(bad[:5]))
        sys.exit(1)
    print(f'TWIN-OK {n}')


if __name__ == '__main__':
    main()
