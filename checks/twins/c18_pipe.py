"""Named-pipe transport on real FIFOs: every sequence of <= 3 payloads from the alphabet, in each direction, between a
Server and a Client running in two real threads.  Objects must arrive intact and in order."""
import itertools
import os
import sys
import tempfile
import threading


def payloads():
    return [b'', b'a\nb\n\n', b'7 3 pickle\nabc', 'héllo\n', {'k': [1, (2, b'\n'), None]}, 0, b'x' * 70000]


def main():
    from mpservice.pipe import Client, Server
    P = payloads()
    d = tempfile.mkdtemp(prefix='c18pipe_')
    path = os.path.join(d, 'p')
    srv = Server(path)
    cli = Client(path)
    n = 0
    bad = []
    seqs = [s for L in (1, 2, 3) for s in itertools.product(range(len(P)), repeat=L)]
    for seq in seqs:
        for sender, receiver, label in ((srv, cli, 's->c'), (cli, srv, 'c->s')):
            got = []

            def recv_all(receiver=receiver, got=got, k=len(seq)):
                for _ in range(k):
                    got.append(receiver.recv())

            t = threading.Thread(target=recv_all, daemon=True)
            t.start()
            for i in seq:
                sender.send(P[i])
            t.join(20)
            if t.is_alive():
                bad.append(f'{label} {seq}: receiver hung')
                print('TWIN-MISMATCH', bad[-1])
                sys.exit(1)
            if got != [P[i] for i in seq]:
                bad.append(f'{label} {seq}: got {repr(got)[:200]}')
            n += 1
    if bad:
        print('TWIN-MISMATCH', '; '.join(bad[:5]))
        sys.exit(1)
    print('TWIN-OK', n, 'pipe sequences')


if __name__ == '__main__':
    main()
