"""Free-running conformance twin for C12: real spawned children ending in each way, incl. real SIGKILL / SIGTERM."""
import os
import signal
import sys
import time


def target(kind):
    if kind == 'obj':
        return {'k': [1, 2]}
    if kind == 'value_error':
        raise ValueError('x')
    if kind == 'exit1':
        sys.exit(1)
    if kind == 'sleep':
        time.sleep(30)
        return 'late'


def main():
    from mpservice.multiprocessing import Process, wait
    bad = []
    for kind, sig in (('obj', None), ('value_error', None), ('exit1', None), ('sleep', signal.SIGKILL), ('sleep', signal.SIGTERM)):
        p = Process(target=target, args=(kind,))
        p.start()
        if sig is not None:
            time.sleep(1.0)
            os.kill(p.pid, sig)
        done, notdone = wait([p], timeout=20)
        if len(done) != 1:
            bad.append(f'{kind}/{sig}: wait did not complete')
            p.kill()
            continue
        try:
            p.join()
            j = 'returned'
        except BaseException as e:
            j = type(e).__name__
        try:
            r = ('value', p.result())
        except BaseException as e:
            r = ('raised', type(e).__name__)
        exp = {('obj', None): ('returned', ('value', {'k': [1, 2]}), 0),
               ('value_error', None): ('ValueError', ('raised', 'ValueError'), 1),
               ('exit1', None): ('SystemExit', ('raised', 'SystemExit'), 1),
               ('sleep', signal.SIGKILL): ('OSError', ('raised', 'OSError'), -9),
               ('sleep', signal.SIGTERM): ('returned', ('value', None), -15)}[(kind, sig)]
        if (j, r, p.exitcode) != exp:
            bad.append(f'{kind}/{sig}: join={j} result={r} exitcode={p.exitcode}, expected {exp}')
    if bad:
        print('TWIN-MISMATCH ' + '; '.join(bad))
        sys.exit(1)
    print('TWIN-OK')


if __name__ == '__main__':
    main()
