"""C04  A failing request fails alone, with its original error.

Same real Server + thread servlets as C02, with fault injection: failing requests x failure site (worker call, per-element
preprocess, ensemble member A / B / both, stage index of a sequential servlet) x batching on/off (batch_size 2, so
failing and healthy requests do or do not share a batch depending on the explored schedule) x concurrent callers.
Oracle: a failing request raises the injected exception type with the injected args, and its traceback still names the
failure site (`call` / `preprocess` of the worker); EnsembleError exactly per the documented rule (fail_fast: any member
failure; otherwise only if all members failed, else the list with exception objects in place); every other request gets
its correct result; with batching exactly the members of the failing call() invocation (recorded by the worker) fail.
"""
from __future__ import annotations

from . import srv

PROPERTY = 'C04'
O = ['answers', 'errors', 'shutdown']
BIG = 1000


class Faults(srv.SrvHarness):
    name = 'faults'
    opts = dict(max_points=8000, timers='free', max_timer_fires=600)
    trace = dict(ensemble=True, worker=True)

    def configs(self, tier):
        quick = tier == 'quick'
        d = 1 if quick else 2
        cap = 60000 if quick else 600000
        three = [[[0, BIG, False]], [[1, BIG, False]], [[2, BIG, False]]]
        seqcalls = [[[0, BIG, False], [1, BIG, False]], [[2, BIG, False], [3, BIG, False]]]
        out = []
        # single servlet: failure in call / in preprocess, one or two failing requests
        for fail, pre in (({'A': [1]}, {}), ({}, {'A': [1]}), ({'A': [0, 2]}, {}), ({'A': [2]}, {'A': [0]})):
            out.append(dict(topo='single', capacity=3, nworkers=2, fail=fail, prefail=pre, calls=three, oracles=O, bound=d, cap=cap))
        out.append(dict(topo='single', capacity=2, fail={'A': [1]}, calls=seqcalls, oracles=O, bound=d, cap=cap))
        # sequential: failure in stage A (short-circuited through B) or in stage B
        for fail, pre in (({'A': [1]}, {}), ({'B': [1]}, {}), ({}, {'B': [2]}), ({'A': [0], 'B': [2]}, {})):
            out.append(dict(topo='seq', capacity=3, fail=fail, prefail=pre, gated=['B'], calls=three, oracles=O, bound=d, cap=cap))
        # failure in stage A, stage B (also a thread servlet) defines preprocess: the upstream error must pass untouched
        out.append(dict(topo='seq', capacity=3, fail={'A': [1]}, prefail={'B': [2]}, calls=three, oracles=O, bound=d, cap=cap))
        out.append(dict(topo='seq', capacity=3, fail={'A': [0, 2]}, prefail={'B': [9]}, gated=['B'], calls=three, oracles=O, bound=d, cap=cap))
        # ensemble whose FAILING member is the slow one (its error is the last member result to arrive)
        for ff in (True, False):
            out.append(dict(topo='ens', capacity=3, fail_fast=ff, fail={'B': [1]}, gated=['B'], env_wait=True, env_wait_t=0.012,
                            calls=three, oracles=O, bound=d, cap=cap))
        # ensemble: which members fail, fail_fast or not
        for ff in (True, False):
            for fail in ({'A': [1]}, {'B': [1]}, {'A': [1], 'B': [1]}, {'A': [0], 'B': [2]}):
                out.append(dict(topo='ens', capacity=3, fail_fast=ff, fail=fail, calls=three, oracles=O,
                                bound=d, cap=cap))
        # batching: batch_size 2, failing element shares / does not share a batch
        for fail, pre in (({'A': [1]}, {}), ({}, {'A': [1]}), ({'A': [0]}, {'A': [2]})):
            out.append(dict(topo='batch', batch=2, capacity=3, fail=fail, prefail=pre, calls=three, oracles=O, bound=d, cap=cap))
        out.append(dict(topo='batch', batch=2, capacity=4, fail={'A': [2]}, calls=[[[10, BIG, False]]],
                        stream=dict(xs=[0, 1, 2, 3], rex=True), oracles=O, bound=d, cap=cap))
        # stream with return_exceptions next to a caller
        out.append(dict(topo='seq', capacity=3, fail={'B': [1]}, calls=[[[10, BIG, False]]],
                        stream=dict(xs=[0, 1, 2], rex=True), oracles=O, bound=d, cap=cap))
        return out


from . import c11  # noqa: E402  (process servlets behind the simulated process boundary)


class PFaults(c11.PHarness):
    """failures inside worker PROCESSES (simulated process boundary): the exception crosses a pickling pipe, so the traceback of
    the failure site must arrive as text"""
    name = 'pfaults'

    def configs(self, tier):
        quick = tier == 'quick'
        d = 0 if quick else 1
        cap = 60000 if quick else 600000
        three = [[[0, BIG, False]], [[1, BIG, False]], [[2, BIG, False]]]
        return [
            dict(ptopo='P', topo='single', nworkers=2, capacity=3, fail={'A': [1]}, calls=three, oracles=O, bound=1, cap=cap),
            dict(ptopo='PT', topo='seq', capacity=3, fail={'A': [1]}, calls=three, oracles=O, bound=d, cap=cap),
            dict(ptopo='TP', topo='seq', capacity=3, fail={'B': [0, 2]}, calls=three, oracles=O, bound=d, cap=cap),
            dict(ptopo='PP', topo='seq', capacity=3, fail={'A': [0], 'B': [2]}, calls=three, oracles=O, bound=d, cap=cap),
            dict(ptopo='ensTP', topo='ens', capacity=3, fail_fast=False, fail={'B': [1]}, calls=three, oracles=O, bound=d, cap=cap),
            dict(ptopo='ensTP', topo='ens', capacity=3, fail_fast=True, fail={'B': [1]}, calls=three, oracles=O, bound=d, cap=cap),
        ]


HARNESSES = {'faults': Faults, 'pfaults': PFaults}
PLAN = {'quick': ['faults', 'pfaults'], 'thorough': ['faults', 'pfaults']}
ASSUMPTIONS = ['process servlets run behind the simulated process boundary (pickling pipes); real process pools are not explored']
