"""C19  EagerBatcher partitions its input and waits no longer than told.

A producer thread puts items into a real queue.Queue after environment-chosen virtual gaps (every gap vector from a
small alphabet is enumerated), then the end marker; the body iterates the real EagerBatcher and records every batch
with the virtual time of its yield.  All waiting happens on the virtual clock, so the timing rules are checked exactly:

  * concatenation of the batches == input, sizes in 1..batch_size;
  * a full batch is yielded the instant its last item is available;
  * a short batch is yielded either when the end marker is obtained, or exactly at first_item_time + wait, and then no
    item that arrived strictly before that deadline was left out (an arrival exactly at the deadline may go either way).
"""
from __future__ import annotations

import queue
import threading

from mc import sched
from mc.explore import Exec, Harness, default_verdict

PROPERTY = 'C19'
EPS = 1e-9


class EBExec(Exec):
    def __init__(self, cfg):
        self.cfg = cfg
        self.gaps = None

    def body(self):
        from mpservice.streamer._streamer import EagerBatcher
        cfg = self.cfg
        s = sched.S()
        w = cfg['w']
        unit = w if w > 0 else 1.0
        alphabet = [0.0, unit / 2, unit, unit * 1.5]
        q = queue.Queue()
        end = cfg['end']
        arrivals = []
        gaps = []

        items = self.items()

        def produce():
            import time
            for i in range(cfg['n']):
                g = alphabet[s.choose(len(alphabet), 'gap')]
                gaps.append(g)
                if g > 0:
                    time.sleep(g)
                arrivals.append(s.now)
                q.put(items[i])
            g = alphabet[s.choose(len(alphabet), 'gap-end')]
            gaps.append(g)
            if g > 0:
                time.sleep(g)
            arrivals.append(s.now)
            q.put(end)

        self.gaps = gaps
        pt = threading.Thread(target=produce, name='producer')
        pt.start()
        batches = []
        kw = dict(batch_size=cfg['bs'], batch_wait_time=w)
        if end is not None:
            kw['endmarker'] = end
        for b in EagerBatcher(q, **kw):
            batches.append((list(b), s.now))
        t_end = s.now
        pt.join()
        return batches, arrivals, t_end

    def items(self):
        # with a custom end marker, None is an ordinary data item
        na = self.cfg.get('none_at')
        return [None if i == na else i for i in range(self.cfg['n'])]

    def observe(self, r):
        if r.error is not None:
            return r.error[0]
        if r.exc is not None:
            return 'exc:' + type(r.exc).__name__
        return repr(([b for b, _ in r.value[0]], self.gaps))

    def verdict(self, r):
        v = default_verdict(r)
        if v:
            return v
        cfg = self.cfg
        batches, arrivals, t_end = r.value
        n, bs, w = cfg['n'], cfg['bs'], cfg['w']
        flat = [x for b, _ in batches for x in b]
        items = self.items()
        if flat != items:
            return ('wrong-partition', f'batches {batches} do not concatenate to the input {items}')
        # (positions below are indices into the input; batches are mapped back by position)
        pos = 0
        ibatches = []
        for b, ty in batches:
            ibatches.append((list(range(pos, pos + len(b))), ty))
            pos += len(b)
        batches = ibatches
        if any(not (1 <= len(b) <= bs) for b, _ in batches):
            return ('bad-batch-size', f'batches {batches} with batch_size {bs}')
        t_free = 0.0   # time at which the batcher was ready to take the first item of the next batch
        for b, ty in batches:
            first, last = b[0], b[-1]
            t0 = max(arrivals[first], t_free)
            deadline = t0 + w
            nxt = last + 1   # index of the following item (n = end marker)
            if len(b) == bs:
                expect = max(t0, arrivals[last])
                if abs(ty - expect) > EPS:
                    return ('full-batch-delayed', f'batch {b} complete at {expect} but yielded at {ty}; arrivals {arrivals}')
                if arrivals[last] > deadline + EPS:
                    return ('waited-too-long', f'batch {b}: item {last} arrived at {arrivals[last]} after deadline {deadline}')
            else:
                if nxt == n and arrivals[n] <= deadline + EPS and abs(ty - max(t0, arrivals[n])) <= EPS:
                    pass   # flushed by the end marker
                else:
                    if abs(ty - deadline) > EPS:
                        return ('short-batch-wrong-time',
                                f'short batch {b} yielded at {ty}, deadline {deadline} (t0 {t0}, wait {w}); arrivals {arrivals}')
                    if arrivals[nxt] < deadline - EPS:
                        return ('short-batch-left-item-out',
                                f'short batch {b} yielded at {ty} although item {nxt} had arrived at {arrivals[nxt]}')
            t_free = ty
        if abs(t_end - max(arrivals[n], t_free)) > EPS:
            return ('end-delayed', f'iteration ended at {t_end}, end marker arrived {arrivals[n]}, last yield {t_free}')
        return None


class EBH(Harness):
    name = 'eager_batcher'
    opts = dict(max_points=2000, timers='free')

    def setup(self):
        from mpservice.streamer._streamer import EagerBatcher
        return sched.all_codes(EagerBatcher.__iter__)

    def configs(self, tier):
        quick = tier == 'quick'
        out = []
        for bs in (1, 2, 3):
            for w in (0.0, 1.0):
                for end in (None, 'END'):
                    for n in range(0, 6):
                        if end == 'END' and n not in (0, 3):
                            continue
                        if quick:
                            d = 1 if n <= 4 else 0
                        else:
                            d = 2 if n <= 2 else (1 if n <= 4 else 0)
                        out.append(dict(bs=bs, w=w, end=end, n=n, bound=d, cap=300000))
                        if end == 'END' and n == 3:
                            for na in (0, 1, 2):
                                out.append(dict(bs=bs, w=w, end=end, n=n, none_at=na, bound=0, cap=300000))
        return out

    def new(self, cfg):
        return EBExec(cfg)


HARNESSES = {'eager_batcher': EBH}
PLAN = {'quick': ['eager_batcher'], 'thorough': ['eager_batcher']}
ASSUMPTIONS = ['the consumer of the batches takes no time between batches (so first_item_time = max(arrival, previous yield))']
