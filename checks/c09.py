"""C09  Workers see well-formed batches; no request waits for a full batch.

The real Worker.start(q_in, q_out) of an instrumented subclass (records every `call` argument and its virtual time) runs in
simulated threads (its collector thread inside), optionally next to a second competing worker on the same input queue and
optionally with num_stream_threads=2.  An environment thread feeds 3-5 requests after chosen virtual gaps from
{0, w/2, w, 2w} (every gap vector), some carrying exception values, some rejected by `preprocess`, then the end marker.
A long-run variant feeds batch_size+12 requests while `call` is gated, to reach the buffer-full path of the collector.

Oracle: every `call` argument is a non-empty list of <= b genuine inputs (a single element when b=0); the multiset of all
batch members == the accepted requests, each exactly once; rejected / exception elements are answered with their own error
and never reach `call`; every request gets exactly one, correct, output; (single worker) a batch is called no later than
first_element_time + batch_wait_time, and at once when full or when the wait is 0; no deadlock.
"""
from __future__ import annotations

import threading

from mc import sched
from mc.explore import Exec, Harness, default_verdict

PROPERTY = 'C09'
EPS = 1e-9


class Boom(Exception):
    pass


class WExec(Exec):
    def __init__(self, cfg):
        self.cfg = cfg
        self.calls = []        # (worker index, argument, virtual time)
        self.gaps = []
        self.metrics = {'max_batch': 0, 'buffer': 0}

    def monitor(self, s):
        for w in getattr(self, 'workers', ()):
            buf = getattr(w, '_batch_buffer', None)
            if buf is not None and buf.qsize() > self.metrics['buffer']:
                self.metrics['buffer'] = buf.qsize()
        return None

    def body(self):
        import mpservice.mpserver._worker as W
        from mpservice.multiprocessing.remote_exception import RemoteException
        cfg = self.cfg
        s = sched.S()
        ex = self
        b = cfg['b']
        wait = cfg.get('wait')
        gate = {'open': not cfg.get('gated', False)}

        class MyWorker(W.Worker):
            def __init__(self, **kw):
                if b > 1:
                    super().__init__(batch_size=b, batch_wait_time=wait, **kw)
                elif b == 1:
                    super().__init__(batch_size=1, **kw)
                else:
                    super().__init__(**kw)
                self.num_stream_threads = cfg.get('stream_threads', 0)

            def call(self, x):
                ex.calls.append((self.worker_index, list(x) if b > 0 else x, s.now))
                if b > 0 and len(x) > ex.metrics['max_batch']:
                    ex.metrics['max_batch'] = len(x)
                if not gate['open']:
                    s.block(lambda: gate['open'], None, on='call-gate')
                if b > 0:
                    if any(v == 'failcall' for v in x):
                        raise Boom('call', tuple(x))
                    return [('R', v) for v in x]
                if x == 'failcall':
                    raise Boom('call', x)
                return ('R', x)

        if cfg.get('preprocess'):
            def preprocess(self, x):
                if isinstance(x, BaseException) or type(x).__name__ == 'RemoteException':
                    # a user's preprocess works on its input; an upstream error must never get here
                    raise TypeError(f'preprocess received a non-input: {x!r}')
                if isinstance(x, str) and x.startswith('rej'):
                    raise Boom('pre', x)
                return x
            MyWorker.preprocess = preprocess

        q_in = W._SimpleThreadQueue()
        q_out = W._SimpleThreadQueue()
        nworkers = cfg.get('workers', 1)
        workers = [MyWorker(worker_index=i) for i in range(nworkers)]
        self.workers = workers
        ts = [threading.Thread(target=w.start, kwargs=dict(q_in=q_in, q_out=q_out), name=f'worker{chr(97 + i)}')
              for i, w in enumerate(workers)]
        for t in ts:
            t.start()
        unit = wait if wait else 1.0
        alphabet = [0.0, unit / 2, unit, unit * 2]
        arrivals = {}
        items = cfg['items']

        def feed():
            import time
            for uid, x in enumerate(items):
                if cfg.get('gaps', True):
                    g = alphabet[s.choose(len(alphabet), 'gap')]
                else:
                    g = 0.0
                self.gaps.append(g)
                if g > 0:
                    time.sleep(g)
                v = x
                if isinstance(x, str) and x.startswith('exc'):
                    # what an upstream servlet hands over for a failed request: a RemoteException around a raised error
                    try:
                        raise ValueError('upstream', x)
                    except ValueError as e:
                        v = RemoteException(e)
                arrivals[uid] = s.now
                q_in.put((uid, v))
            if cfg.get('gaps', True):
                # the server keeps running after the last request: the end marker comes after a pause of its own, so the
                # last (partial) batch cannot count on it
                g = (0.0, unit * 2)[s.choose(2, 'gap-end')]
                self.gaps.append(g)
                if g > 0:
                    time.sleep(g)
            if cfg.get('gated') and not cfg.get('gate_on_full'):
                # open the gate only once everything is queued: the collector has to cope with a full buffer
                s.block(lambda: False, 5.0, on='feeder-pause')
                gate['open'] = True
            q_in.put(None)

        def opener():
            # call() becomes fast again at the very moment the collector's buffer has become full
            s.block(lambda: any(getattr(w, '_batch_buffer', None) is not None and w._batch_buffer.full() for w in workers),
                    60.0, on='opener')
            gate['open'] = True

        if cfg.get('gate_on_full'):
            ot = threading.Thread(target=opener, name='opener')
            ot.start()

        ft = threading.Thread(target=feed, name='feeder')
        ft.start()
        ft.join()
        for t in ts:
            t.join()
        outs = []
        while not q_out.empty():
            outs.append(q_out.get())
        leftover_in = []
        while not q_in.empty():
            leftover_in.append(q_in.get())
        return outs, arrivals, leftover_in

    def observe(self, r):
        if r.error is not None:
            return r.error[0]
        if r.exc is not None:
            return 'exc:' + type(r.exc).__name__
        return repr(([(a, t) for _, a, t in self.calls], self.gaps))[:300]

    def verdict(self, r):
        v = default_verdict(r)
        if v:
            return v
        cfg = self.cfg
        outs, arrivals, leftover_in = r.value
        b = cfg['b']
        items = cfg['items']
        pre = cfg.get('preprocess')

        def accepted(x):
            if isinstance(x, str) and x.startswith('exc'):
                return False
            if pre and isinstance(x, str) and x.startswith('rej'):
                return False
            return True

        want = [x for x in items if accepted(x)]
        members = []
        for widx, arg, t in self.calls:
            if b > 0:
                if not isinstance(arg, list) or not (1 <= len(arg) <= max(b, 1)):
                    return ('malformed-batch', f'call received {arg!r} with batch_size {b}')
                members.extend(arg)
            else:
                if isinstance(arg, list):
                    return ('malformed-batch', f'call received a list {arg!r} with batch_size 0')
                members.append(arg)
        for m in members:
            if m is None or isinstance(m, BaseException) or type(m).__name__ == 'RemoteException' or not accepted(m):
                return ('non-genuine-input-in-call', f'call received {m!r}; calls: {self.calls}')
        if sorted(map(repr, members)) != sorted(map(repr, want)):
            return ('batch-members-differ', f'call saw {members}, accepted requests {want}')
        # outputs: exactly one per request, correct
        got = {}
        for z in outs:
            if z is None:
                continue
            uid, y = z
            if uid in got:
                return ('duplicate-output', f'uid {uid} answered twice: {outs}')
            got[uid] = y
        for uid, x in enumerate(items):
            if uid not in got:
                return ('missing-output', f'request {uid} ({x!r}) has no output; outputs {outs}')
            y = got[uid]
            if type(y).__name__ == 'RemoteException':
                y = y.exc
            if isinstance(x, str) and x.startswith('exc'):
                ok = isinstance(y, ValueError) and y.args == ('upstream', x)
            elif pre and isinstance(x, str) and x.startswith('rej'):
                ok = isinstance(y, Boom) and y.args == ('pre', x)
            elif x == 'failcall' or (b > 0 and isinstance(y, Boom)):
                batch = [a for _, a, _ in self.calls if (x in a if b > 0 else a == x)]
                ok = isinstance(y, Boom) and (b == 0 or (len(batch) == 1 and 'failcall' in batch[0] and y.args == ('call', tuple(batch[0]))))
            else:
                ok = y == ('R', x)
            if not ok:
                return ('wrong-output', f'request {uid} ({x!r}) answered {y!r}; calls {self.calls}')
        if None not in outs:
            return ('end-marker-not-forwarded', f'outputs {outs}')
        if any(z is not None for z in leftover_in):
            return ('input-left-behind', f'input queue holds {leftover_in} after the workers stopped')
        # timing (single worker, instantaneous call, no in-worker pool)
        if cfg.get('workers', 1) == 1 and b > 1 and not cfg.get('gated') and not cfg.get('stream_threads'):
            wait = cfg['wait']
            first_uid = {}
            for uid, x in enumerate(items):
                first_uid.setdefault(repr(x), uid)
            t_free = 0.0
            t_end = max(arrivals.values()) if arrivals else 0.0
            for _, arg, t in self.calls:
                uids = [first_uid[repr(a)] for a in arg]
                t0 = max(arrivals[uids[0]], t_free)
                if len(arg) == b:
                    expect = max(t0, arrivals[uids[-1]])
                    if abs(t - expect) > EPS:
                        return ('full-batch-delayed', f'batch {arg} complete at {expect}, called at {t}')
                elif t > t0 + wait + EPS:
                    return ('batch-waited-too-long', f'batch {arg}: first element taken at {t0}, called at {t} > +{wait}')
                elif wait == 0 and abs(t - t0) > EPS:
                    return ('batch-delayed-with-zero-wait', f'batch {arg}: first element at {t0}, called at {t}')
                t_free = t
        return None


class WorkerH(Harness):
    name = 'worker'
    opts = dict(max_points=8000, timers='free', max_timer_fires=300)

    def setup(self):
        import mpservice.mpserver._worker as W
        codes = []
        for f in (W.Worker._build_input_batches, W.Worker._get_input_batch, W.Worker._start_batch, W.Worker._start_single):
            codes += sched.all_codes(f)
        return codes

    def configs(self, tier):
        quick = tier == 'quick'
        cap = 60000 if quick else 600000
        out = []
        plain = [1, 2, 3]
        mixed = [1, 'exc1', 'rej1', 2]
        for b in (0, 1):
            out.append(dict(b=b, items=plain, bound=1, cap=cap))
            out.append(dict(b=b, items=mixed, preprocess=True, bound=1, cap=cap))
            out.append(dict(b=b, items=[1, 'failcall', 2], bound=1, cap=cap))
        for b in (2, 3):
            for wait in (0, 1.0):
                out.append(dict(b=b, wait=wait, items=plain, bound=1, cap=cap))
            out.append(dict(b=b, wait=1.0, items=mixed, preprocess=True, bound=1, cap=cap))
            out.append(dict(b=b, wait=1.0, items=[1, 'failcall', 2, 3], bound=0 if quick else 1, cap=cap))
        out.append(dict(b=2, wait=1.0, items=[1, 2, 3, 4, 5], bound=0, cap=cap))
        # competing workers on the same input queue; in-worker thread pool
        out.append(dict(b=2, wait=1.0, workers=2, items=plain, gaps=False, bound=1 if quick else 2, cap=cap))
        out.append(dict(b=2, wait=0, workers=2, items=[1, 'exc1', 2, 3], gaps=False, bound=1 if quick else 2, cap=cap))
        out.append(dict(b=0, workers=2, items=plain, gaps=False, bound=2, cap=cap))
        out.append(dict(b=2, wait=1.0, stream_threads=2, items=plain, gaps=False, bound=1, cap=cap))
        # buffer-full path of the collector (slack constant 10 is in the source): b+12 requests while call is gated
        out.append(dict(b=2, wait=0.5, gated=True, items=list(range(14)), gaps=False, bound=1 if quick else 2, cap=cap,
                        sched_opts=dict(max_points=20000)))
        return out

    def new(self, cfg):
        return WExec(cfg)


class CollectorFullH(WorkerH):
    """the consumer starts draining exactly when the collector's buffer has become full (the collector is between its
    fullness test and its wait); only the collector is traced line by line, so that two deviations are affordable"""
    name = 'collector_full'
    opts = dict(max_points=20000, timers='free', max_timer_fires=300)

    def setup(self):
        import mpservice.mpserver._worker as W
        return sched.all_codes(W.Worker._build_input_batches)

    def configs(self, tier):
        quick = tier == 'quick'
        return [dict(b=2, wait=0.5, gated=True, gate_on_full=True, items=list(range(15)), gaps=False, bound=2 if quick else 3,
                     cap=150000 if quick else 1500000)]


HARNESSES = {'worker': WorkerH, 'collector_full': CollectorFullH}
PLAN = {'quick': ['worker', 'collector_full'], 'thorough': ['worker', 'collector_full']}
ASSUMPTIONS = ['thread queues (_SimpleThreadQueue); the process-queue variant differs only in the queue type',
               'timing oracle assumes call() takes no virtual time']
