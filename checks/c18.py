"""C18  Socket and pipe transports deliver intact and to the right request.

'framing'  (cases, stand-alone virtual loop) real write_record -> captured bytes -> real asyncio.StreamReader fed in EVERY
           chunking into <= 3 chunks (all cut positions for small streams; for 200 KiB payloads the cut positions
           {1, header end +-1, 64 KiB +-1, end-1}) x every gap vector from {0, 0.05, 0.1, 0.25} virtual seconds between the
           chunks (the reader's 0.1 s timeout fires in between and the caller retries, as the library does).  Payloads: b'',
           bytes with newlines, a header look-alike, str, nested containers, an exception object, a large blob; 1-2 records.
'server'   (cases, virtual loop) real SocketServer._handle_connection over in-memory streams; 3 requests whose handlers take
           every duration vector from {0,1,2,3} (all completion orders), one handler raises, backlog 1 / 2 / 256.
           Oracle: one response per request, tagged with its id, payload == handler(own input) or its exception, request order.
'client'   (schedex + virtual loop) real SocketClient (its loop runs in a pool thread) whose connections are in-memory
           streams to a scripted server that answers in every order; 2 requester threads + a stream of 3.
twins      named pipe: real FIFOs, Server and Client in two real threads, every sequence of <= 3 payloads from the alphabet in
           each direction; one end-to-end run over a real unix socket with the whole payload alphabet and 40 concurrent
           requests.
"""
from __future__ import annotations

import asyncio
import concurrent.futures
import itertools
import pickle

from mc import sched, vloop
from mc.explore import Exec, Harness, default_verdict

PROPERTY = 'C18'


class Boom(Exception):
    pass


def payloads():
    return {
        'empty_bytes': b'',
        'newlines': b'a\nb\n\n',
        'header_like': b'7 3 pickle\nabc',
        'text': 'héllo\n',
        'nested': {'k': [1, (2, b'\n'), None], 's': {'x'}},
        'exc': ValueError('payload-exception', 3),
        'zero': 0,
    }


def norm(v):
    if isinstance(v, BaseException):
        return ('EXC', type(v).__name__, v.args)
    if isinstance(v, (list, tuple)):
        return type(v)(norm(a) for a in v)
    if isinstance(v, dict):
        return {k: norm(a) for k, a in v.items()}
    return v


class CaptureWriter:
    def __init__(self):
        self.data = bytearray()
        self.closed = False

    def write(self, b):
        self.data += b

    async def drain(self):
        return None

    def close(self):
        self.closed = True

    async def wait_closed(self):
        return None

    def is_closing(self):
        return self.closed

    def get_extra_info(self, name, default=None):
        return ('mem', 0)


def cut_positions(n, header_ends, big):
    if not big:
        return list(range(1, n))
    cand = {1, n - 1, 65536 - 1, 65536, 65536 + 1}
    for h in header_ends:
        cand.update((h - 1, h, h + 1))
    return sorted(c for c in cand if 0 < c < n)


class FramingH(Harness):
    name = 'framing'
    kind = 'cases'

    def configs(self, tier):
        names = list(payloads())
        out = [dict(records=[n]) for n in names]
        out += [dict(records=[a, b]) for a, b in (('header_like', 'newlines'), ('empty_bytes', 'empty_bytes'), ('nested', 'text'),
                                                   ('exc', 'header_like'))]
        out.append(dict(records=['big'], big=True))
        out.append(dict(records=['big', 'header_like'], big=True))
        return out

    def _stream(self, cfg):
        from mpservice.socket import write_record
        P = payloads()
        P['big'] = b'\n7 3 pickle\n' * 17000 + bytes(range(256)) * 16

        async def mk():
            w = CaptureWriter()
            ends = []
            for i, name in enumerate(cfg['records']):
                await write_record(w, 100 + i, P[name], encoder='pickle')
                ends.append(len(w.data))
            return bytes(w.data), ends

        data, ends = vloop.run(mk())
        header_ends = []
        pos = 0
        for e in ends:
            header_ends.append(data.index(b'\n', pos) + 1)
            pos = e
        return data, header_ends + ends[:-1], [norm(P[n]) for n in cfg['records']]

    def cases(self, cfg):
        data, marks, _ = self._stream(cfg)
        cuts = cut_positions(len(data), marks, cfg.get('big', False))
        gaps = (0, 0.05, 0.1, 0.25)
        yield [[], []]
        for c in cuts:
            for g in gaps:
                yield [[c], [g]]
        step = 1 if len(cuts) <= 40 else max(1, len(cuts) // 25)
        sub = cuts[::step]
        for a, b in itertools.combinations(sub, 2):
            for g in ((0, 0), (0.25, 0), (0, 0.25), (0.1, 0.1), (0.05, 0.25)):
                yield [[a, b], list(g)]

    def run_case(self, cfg, case):
        from mpservice.socket import read_record
        cuts, gaps = case
        key = tuple(cfg['records'])
        cache = getattr(self, '_cache', None)
        if cache is None:
            cache = self._cache = {}
        if key not in cache:
            cache[key] = self._stream(cfg)
        data, _, want = cache[key]
        chunks = [data[a:b] for a, b in zip([0] + cuts, cuts + [len(data)])]
        n = len(want)

        async def main():
            reader = asyncio.StreamReader(limit=2 ** 16)
            got = []
            timeouts = [0]

            async def consume():
                while len(got) < n:
                    try:
                        rid, obj = await read_record(reader, timeout=0.1)
                    except asyncio.TimeoutError:
                        timeouts[0] += 1
                        if timeouts[0] > 50:
                            return
                        continue
                    got.append((rid, norm(obj)))

            t = asyncio.ensure_future(consume())
            await asyncio.sleep(0)
            for i, ch in enumerate(chunks):
                if i > 0 and gaps[i - 1]:
                    await asyncio.sleep(gaps[i - 1])
                reader.feed_data(ch)
            await asyncio.wait_for(t, 30)
            return got, timeouts[0]

        try:
            got, nto = vloop.run(main())
        except BaseException as e:
            return ('crash', ('framing-crash:' + type(e).__name__, f'{cfg["records"]} cuts {cuts} gaps {gaps}: {e!r}'), True)
        exp = [(str(100 + i), w) for i, w in enumerate(want)]
        if got != exp:
            return (repr(got)[:100], ('record-corrupted', f'{cfg["records"]} cuts {cuts} gaps {gaps}: decoded '
                                      f'{repr(got)[:300]} instead of {repr(exp)[:300]}'), True)
        return (f'ok-timeouts={nto}', None, bool(cuts))


class ServerH(Harness):
    name = 'server'
    kind = 'cases'

    def configs(self, tier):
        return [dict(backlog=b) for b in (1, 2, 256)]

    def cases(self, cfg):
        for durs in itertools.product((0, 1, 2, 3), repeat=3):
            for fail in (None, 0, 1, 2):
                for gap in (0, 0.15):
                    yield [list(durs), fail, gap]

    def run_case(self, cfg, case):
        from mpservice.socket import SocketApplication, SocketServer, read_record, write_record
        durs, fail, gap = case
        inputs = [('in', i, b'\n' * i) for i in range(3)]

        async def main():
            app = SocketApplication()
            calls = []

            async def route(x):
                i = x[1]
                calls.append(i)
                if durs[i]:
                    await asyncio.sleep(durs[i])
                if i == fail:
                    raise Boom('handler', i)
                return ('out', x)

            app.add_route('/r', route)
            server = SocketServer(app, path='/tmp/not-used', backlog=cfg['backlog'])
            reader = asyncio.StreamReader()
            writer = CaptureWriter()
            conn = asyncio.ensure_future(server._handle_connection(reader, writer))
            w = CaptureWriter()
            for i, x in enumerate(inputs):
                await write_record(w, f'id{i}', ('/r', x))
                reader.feed_data(bytes(w.data))
                w.data.clear()
                if gap:
                    await asyncio.sleep(gap)
            # collect the three responses from what the server wrote
            out = asyncio.StreamReader(limit=2 ** 20)
            got = []
            fed = 0
            for _ in range(400):
                if len(writer.data) > fed:
                    out.feed_data(bytes(writer.data[fed:]))
                    fed = len(writer.data)
                while True:
                    try:
                        rid, obj = await read_record(out, timeout=0.001)
                    except asyncio.TimeoutError:
                        break
                    got.append((rid, norm(obj)))
                if len(got) >= 3:
                    break
                await asyncio.sleep(0.05)
            reader.feed_eof()
            try:
                await asyncio.wait_for(conn, 5)
            except Exception:
                pass
            return got, calls

        try:
            got, calls = vloop.run(main())
        except BaseException as e:
            return ('crash', ('server-crash:' + type(e).__name__, f'{case}: {e!r}'), True)
        exp = []
        for i, x in enumerate(inputs):
            exp.append((f'id{i}', ('EXC', 'Boom', ('handler', i)) if i == fail else ('out', norm(x))))
        # (the order of the responses on the wire is the server's business; what matters is id <-> payload, once each)
        if sorted(got, key=lambda z: z[0]) != exp or len(got) != len(exp):
            return (repr(got)[:100], ('wrong-responses', f'backlog {cfg["backlog"]} {case}: responses {got} expected {exp}'), True)
        if sorted(calls) != [0, 1, 2]:
            return (repr(got)[:100], ('handler-calls', f'{case}: handler called for {calls}'), True)
        return ('ok', None, len(set(durs)) > 1)


# ------------------------------------------------------------------ client under the scheduler
class MemWriter:
    def __init__(self, peer_reader):
        self.peer = peer_reader
        self.closed = False

    def write(self, b):
        if b:
            asyncio.get_running_loop().call_soon(self.peer.feed_data, bytes(b))

    async def drain(self):
        return None

    def close(self):
        if not self.closed:
            self.closed = True
            try:
                asyncio.get_running_loop().call_soon(self.peer.feed_eof)
            except RuntimeError:
                pass

    async def wait_closed(self):
        return None

    def is_closing(self):
        return self.closed

    def get_extra_info(self, name, default=None):
        return ('mem', 0)


class ClientExec(Exec):
    def __init__(self, cfg):
        self.cfg = cfg

    def body(self):
        import threading
        import mpservice.socket as SK
        cfg = self.cfg
        s = sched.S()
        durs = cfg['durs']
        served = []

        async def fake_open(path, *, timeout=None):
            # the client's connection: an in-memory duplex to a scripted server task running on the client's own loop
            c_reader = asyncio.StreamReader()
            s_reader = asyncio.StreamReader()
            c_writer = MemWriter(s_reader)
            s_writer = MemWriter(c_reader)

            async def server_side():
                lock = asyncio.Lock()

                async def answer(rid, data):
                    x = data[1]
                    d = durs[x % len(durs)] * 0.002     # (the client polls every 1.2 ms: keep latencies in that range)
                    if d:
                        await asyncio.sleep(d)
                    served.append(x)
                    y = Boom('remote', x) if x == cfg.get('fail') else ('resp', x)
                    async with lock:
                        await SK.write_record(s_writer, rid, y)

                while True:
                    try:
                        rid, data = await SK.read_record(s_reader, timeout=0.1)
                    except asyncio.TimeoutError:
                        continue
                    except asyncio.IncompleteReadError:
                        return
                    asyncio.ensure_future(answer(rid, data))

            asyncio.ensure_future(server_side())
            return c_reader, c_writer

        SK.open_unix_connection = fake_open
        s.exit_hooks.append(lambda: setattr(SK, 'open_unix_connection', ORIG['open']))
        if cfg.get('ids'):
            # request ids are id(future): every legal behaviour of the allocator (fresh, or any id whose object is gone)
            from checks.srv import IdAllocator
            SK.id = IdAllocator(s)
            s.exit_hooks.append(lambda: SK.__dict__.pop('id', None))
        timeouts = cfg.get('timeouts', {})
        res = {}
        with SK.SocketClient(path='/tmp/not-used', num_connections=cfg['conns'], backlog=cfg.get('backlog', 8)) as client:
            def requester(k, xs):
                out = []
                for x in xs:
                    try:
                        out.append((x, norm(client.request('/r', x, response_timeout=timeouts.get(str(x), 500)))))
                    except Boom as e:
                        out.append((x, norm(e)))
                    except concurrent.futures.TimeoutError:
                        out.append((x, ('TIMEOUT',)))
                    except Exception as e:
                        out.append((x, ('FAILED', type(e).__name__, str(e)[:80])))
                res[k] = out

            def streamer(xs):
                try:
                    res['stream'] = [(x, norm(y)) for x, y in client.stream('/r', xs, return_x=True, return_exceptions=True)]
                except Exception as e:
                    res['stream'] = [('FAILED', type(e).__name__, str(e)[:80])]

            ts = [threading.Thread(target=requester, args=(k, xs), name=f'req{chr(97 + k)}') for k, xs in enumerate(cfg['reqs'])]
            if cfg.get('stream'):
                ts.append(threading.Thread(target=streamer, args=(cfg['stream'],), name='streamer'))
            for t in ts:
                t.start()
            for t in ts:
                t.join()
        return res, sorted(served)

    def verdict(self, r):
        v = default_verdict(r)
        if v:
            return v
        cfg = self.cfg
        res, served = r.value

        def want(x):
            if str(x) in cfg.get('timeouts', {}):
                return ('TIMEOUT',)      # (the harness makes this request's handler slower than its deadline)
            return ('EXC', 'Boom', ('remote', x)) if x == cfg.get('fail') else ('resp', x)

        for k, xs in enumerate(cfg['reqs']):
            exp = [(x, want(x)) for x in xs]
            if res.get(k) != exp:
                return ('wrong-response', f'requester {k} got {res.get(k)}, expected {exp}')
        if cfg.get('stream'):
            exp = [(x, want(x)) for x in cfg['stream']]
            if res.get('stream') != exp:
                return ('stream-wrong', f'stream got {res.get("stream")}, expected {exp}')
        allx = sorted([x for xs in cfg['reqs'] for x in xs] + list(cfg.get('stream') or []))
        if served != allx:
            return ('requests-not-delivered-once', f'server saw {served}, sent {allx}')
        return None


ORIG = {}


class ClientH(Harness):
    name = 'client'
    opts = dict(max_points=30000, timers='free', max_timer_fires=3000)

    def setup(self):
        vloop.install()
        import mpservice.socket as SK
        ORIG['open'] = SK.open_unix_connection
        codes = []
        for f in (SK.SocketClient._open_connections, SK.SocketClient._enqueue, SK.SocketClient.request):
            codes += sched.all_codes(f)
        return codes

    def configs(self, tier):
        quick = tier == 'quick'
        out = []
        for durs in ([0, 0, 0], [2, 1, 0], [0, 3, 1]):
            out.append(dict(conns=1, durs=durs, reqs=[[0, 1], [2]], bound=2 if quick else 3, cap=20000 if quick else 200000))
            out.append(dict(conns=2, durs=durs, reqs=[[0], [1, 2]], fail=1, bound=1 if quick else 2, cap=20000 if quick else 200000))
        # a request that times out while the server is still working on it, followed by further requests on the same
        # connection; ids from the model allocator
        out.append(dict(conns=1, durs=[30, 1, 2, 40], reqs=[[0, 1, 2, 3]], timeouts={'0': 0.004}, ids=True, bound=1 if quick else 2,
                        cap=20000 if quick else 200000))
        out.append(dict(conns=1, durs=[30, 1, 2, 40], reqs=[[0, 1], [2, 3]], timeouts={'0': 0.004}, fail=0, ids=True, bound=0 if quick else 1,
                        cap=20000 if quick else 200000))
        out.append(dict(conns=1, durs=[2, 1, 0], reqs=[[10]], stream=[0, 1, 2], fail=1, bound=1 if quick else 2,
                        cap=20000 if quick else 200000))
        return out

    def new(self, cfg):
        return ClientExec(cfg)


# ------------------------------------------------------------------ real OS objects (free running, in the master process)
# ------------------------------------------------------------------ named pipe: every short history on real FIFOs
class PipeHistH(Harness):
    """Named-pipe transport: EVERY history of at most `depth` operations over {create server end, create client end, send,
    recv, close} on REAL FIFOs in a fresh directory, against a reference model (one list per direction).  Each history runs in
    a forked child with a watchdog, because a wrong implementation blocks in open()/read() and cannot be interrupted.
    Legal (enabled) operations: an end is created once, before its other operations; recv only when the model has an object
    for it (it must then arrive, intact and next in order) or when the peer has closed, while this end existed, with nothing
    left (EOFError); an end
    may close with objects still undelivered only if the receiving end already exists (otherwise the kernel has nobody to
    keep them for - not the library's business)."""
    name = 'pipe_histories'
    kind = 'cases'

    def setup(self):
        return []

    def configs(self, tier):
        return [dict(depth=7 if tier == 'quick' else 9)]

    PAYLOADS = [b'a\nb', {'k': [1, None]}]

    def cases(self, cfg):
        out = []

        def rec(hist, st):
            if hist:
                out.append(list(hist))
            if len(hist) >= cfg['depth']:
                return
            for side, peer in (('S', 'C'), ('C', 'S')):
                me = st[side]
                if me['state'] == 'new':
                    st2 = _copy(st)
                    st2[side]['state'] = 'open'
                    rec(hist + [[side, 'init']], st2)
                    continue
                if me['state'] != 'open':
                    continue
                if me['sent'] < 2:
                    st2 = _copy(st)
                    st2[side]['sent'] += 1
                    st2[side]['outbox'].append(me['sent'] % 2)
                    rec(hist + [[side, 'send', me['sent'] % 2]], st2)
                inbox = st[peer]['outbox']
                if inbox:
                    st2 = _copy(st)
                    x = st2[peer]['outbox'].pop(0)
                    rec(hist + [[side, 'recv', x]], st2)
                elif me['eof_due'] and not me['saw_eof']:
                    st2 = _copy(st)
                    st2[side]['saw_eof'] = True
                    rec(hist + [[side, 'recv', 'EOF']], st2)
                if not me['outbox'] or st[peer]['state'] != 'new':
                    st2 = _copy(st)
                    st2[side]['state'] = 'closed'
                    if st2[peer]['state'] == 'open':
                        # the peer exists and will see the end of the stream (a peer created later cannot tell "gone" from
                        # "not there yet" and rightly waits)
                        st2[peer]['eof_due'] = True
                    rec(hist + [[side, 'close']], st2)

        def _copy(st):
            return {k: dict(v, outbox=list(v['outbox'])) for k, v in st.items()}

        rec([], {k: dict(state='new', sent=0, outbox=[], saw_eof=False, eof_due=False) for k in 'SC'})
        return out

    def run_case(self, cfg, case):
        import os
        import pickle
        import select
        import shutil
        import tempfile
        d = tempfile.mkdtemp(prefix='c18hist_')
        r, w = os.pipe()
        pid = os.fork()
        if pid == 0:
            # child: run the history on real FIFOs, report the first deviation
            try:
                os.close(r)
                from mpservice.pipe import Client, Server
                ends = {}
                verdict = None
                for i, op in enumerate(case):
                    side = op[0]
                    os.write(w, b'.')          # progress mark (the parent reports the operation that blocks)
                    if op[1] == 'init':
                        ends[side] = (Server if side == 'S' else Client)(os.path.join(d, 'p'))
                    elif op[1] == 'send':
                        ends[side].send(self.PAYLOADS[op[2]])
                    elif op[1] == 'close':
                        e = ends.pop(side)
                        e._writer.close()
                        if e._reader is not None:
                            e._reader.close()
                        del e
                    else:
                        try:
                            got = ('value', ends[side].recv())
                        except EOFError:
                            got = ('EOF',)
                        want = ('EOF',) if op[2] == 'EOF' else ('value', self.PAYLOADS[op[2]])
                        if got != want:
                            verdict = (i, f'recv gave {got!r}, the reference {want!r}')
                            break
                os.write(w, b'!' + pickle.dumps(verdict))
            finally:
                os._exit(0)
        os.close(w)
        buf = b''
        hung = False
        while True:
            ready, _, _ = select.select([r], [], [], 10.0)
            if not ready:
                hung = True
                break
            chunk = os.read(r, 65536)
            if not chunk:
                break
            buf += chunk
            if b'!' in buf:
                break
        if hung:
            try:
                os.kill(pid, 9)
            except OSError:
                pass
        os.waitpid(pid, 0)
        os.close(r)
        shutil.rmtree(d, ignore_errors=True)
        label = ' '.join(''.join(map(str, o)) for o in case)
        if hung:
            k = buf.count(b'.') - 1
            op = case[k] if 0 <= k < len(case) else None
            return ('hang', (f'pipe-operation-blocks:{op[1] if op else "?"}',
                             f'history {case}: operation {k} {op} did not return within 10 s (the object was sent, or the peer has '
                             'closed, so it must return)'), True)
        if b'!' not in buf:
            return ('crash', ('pipe-history-crashed', f'history {case}: the child ended without a verdict'), True)
        verdict = pickle.loads(buf[buf.index(b'!') + 1:])
        if verdict is not None:
            return ('wrong', ('pipe-wrong-delivery', f'history {case}: step {verdict[0]}: {verdict[1]}'), True)
        return ('ok', None, len(case) > 2)


def twins(tier, pool, stats):
    import os
    import subprocess
    from mc.explore import PY, REPO, VERIF
    env = dict(os.environ, PYTHONPATH=os.path.join(REPO, 'src'))
    n_ok = 0
    for script, args, nruns in (('c18_pipe.py', [], 1), ('c18_socket.py', [], 1)):
        try:
            r = subprocess.run([PY, os.path.join(VERIF, 'checks', 'twins', script)] + args, capture_output=True, text=True,
                               timeout=300, env=env)
            ok = r.returncode == 0
            detail = (r.stdout + r.stderr)[-500:]
            for line in r.stdout.splitlines():
                if line.startswith('TWIN-OK'):
                    n_ok += int(line.split()[1])
        except subprocess.TimeoutExpired:
            ok = False
            detail = 'watchdog: did not finish within 300 s'
        if not ok:
            stats[0].violations.setdefault(f'real-transport:{script}', dict(count=1, choices=[], no_replay=True,
                                                                          detail=f'{script}: {detail}'))
    return n_ok


HARNESSES = {'pipe_histories': PipeHistH, 'framing': FramingH, 'server': ServerH, 'client': ClientH}
PLAN = {'quick': ['framing', 'server', 'client', 'pipe_histories'], 'thorough': ['framing', 'server', 'client', 'pipe_histories']}
RULE = ('framing/server: complete enumeration of chunkings x gap vectors / duration vectors x failing handler x backlog on a '
        'virtual event loop; client: delay-bounded schedule exploration; non-trivial = at least one cut / unequal durations / '
        'a non-default scheduling decision')
ASSUMPTIONS = ['in-memory streams deliver written bytes one loop iteration later, as a real transport would at the earliest',
               'named pipe and real-socket runs are free running (kernel scheduling is not controlled); nothing in pipe.py is concurrent']
