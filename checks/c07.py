"""C07  An abandoned request (timeout, dropped stream) never harms the server.

Real Server + ThreadServlet with environment-gated workers.  A call with a finite virtual deadline races the delivery of
its own result; timers may fire at ANY scheduling point (timers='all': the deadline expiry is placed at every point of
the gather thread, one deviation each).  A second caller with an unbounded deadline runs concurrently and one more
request is issued afterwards.  Also: a stream consumer that closes after k of its outputs (pending futures cancelled by
fifo_stream) next to a caller.  Oracle: the abandoned call raises TimeoutError or returns its own result (both legal);
every other request is answered correctly; the gather thread is alive until shutdown; __exit__ returns; no thread left.
"""
from __future__ import annotations

from . import srv

PROPERTY = 'C07'
O = ['timeouts', 'shutdown']


class TimeoutRace(srv.SrvHarness):
    name = 'timeout_race'
    opts = dict(max_points=6000, timers='all', max_timer_fires=200, timer_window=50)

    def configs(self, tier):
        quick = tier == 'quick'
        out = []
        big = 1000
        # one deadline racing one gated result; an unbounded caller next to it; a late call afterwards
        out.append(dict(topo='single', capacity=4, gated=['A'], calls=[[[0, 2, False]], [[1, big, False]]], late_call=9,
                        oracles=O, bound=2, cap=150000 if quick else 1500000))
        out.append(dict(topo='single', capacity=4, gated=['A'], calls=[[[0, 2, False], [2, big, False]], [[1, 3, False]]],
                        late_call=9, oracles=O, bound=1 if quick else 2, cap=100000 if quick else 1000000))
        # a saturated server: the only slot belongs to the request whose deadline races its result, and another request
        # waits for that slot (it must be woken whichever way the race goes)
        out.append(dict(topo='single', capacity=1, gated=['A'], calls=[[[0, 2, False]], [[1, big, False]]], late_call=9,
                        oracles=O, bound=2, cap=150000 if quick else 1500000))
        # the abandoned request's late outcome is an exception
        out.append(dict(topo='single', capacity=4, gated=['A'], fail={'A': [0]}, calls=[[[0, 2, False]], [[1, big, False]]],
                        late_call=9, oracles=O, bound=2, cap=150000 if quick else 1500000))
        out.append(dict(topo='seq', capacity=4, gated=['B'], calls=[[[0, 2, False]], [[1, big, False]]], late_call=9,
                        oracles=O, bound=1 if quick else 2, cap=100000 if quick else 1000000))
        out.append(dict(topo='ens', capacity=4, gated=['B'], fail_fast=True, calls=[[[0, 2, False]], [[1, big, False]]],
                        late_call=9, oracles=O, bound=1, cap=60000 if quick else 600000,
                        sched_opts=dict(max_timer_fires=600)))
        return out


class StreamDrop(srv.SrvHarness):
    name = 'stream_drop'
    opts = dict(max_points=8000, timers='free', max_timer_fires=200)

    def configs(self, tier):
        quick = tier == 'quick'
        out = []
        for k in (1, 2):
            out.append(dict(topo='single', capacity=4, calls=[[[10, 1000, False]]], late_call=9,
                            stream=dict(xs=[0, 1, 2], stop_after=k), oracles=O, bound=2 if k == 1 else (1 if quick else 2),
                            cap=150000 if quick else 1500000))
        out.append(dict(topo='single', capacity=4, gated=['A'], calls=[[[10, 1000, False]]], late_call=9,
                        stream=dict(xs=[0, 1, 2], stop_after=1), oracles=O, bound=1 if quick else 2,
                        cap=100000 if quick else 1000000))
        # abandoned stream elements that fail late; a saturated server whose slots are all abandoned (waiter must be woken)
        out.append(dict(topo='single', capacity=4, fail={'A': [1, 2]}, calls=[[[10, 1000, False]]], late_call=9,
                        stream=dict(xs=[0, 1, 2], stop_after=1), oracles=O, bound=1 if quick else 2, cap=150000 if quick else 1500000))
        out.append(dict(topo='single', capacity=1, gated=['A'], calls=[[[0, 2, False]], [[1, 1000, False]]], late_call=9,
                        oracles=O, bound=1 if quick else 2, cap=100000 if quick else 1000000))
        out.append(dict(topo='single', capacity=1, gated=['A'], calls=[[[10, 1000, False]]], late_call=9,
                        stream=dict(xs=[0, 1, 2], stop_after=1), oracles=O, bound=1 if quick else 2,
                        cap=100000 if quick else 1000000))
        # slow worker (the environment may hold a call for 3 virtual seconds, longer than the 2 s deadline): the slot of
        # the abandoned request is freed late while another request waits for it
        out.append(dict(topo='single', capacity=1, gated=['A'], env_wait=True, env_wait_t=3.0,
                        calls=[[[0, 2, False]], [[1, 1000, False]]], late_call=9, oracles=O, bound=1,
                        cap=100000 if quick else 1000000))
        out.append(dict(topo='single', capacity=1, gated=['A'], env_wait=True, env_wait_t=3.0, calls=[[[10, 2, False]]],
                        late_call=9, stream=dict(xs=[0, 1], stop_after=1), oracles=O, bound=1, cap=100000 if quick else 1000000))
        return out


class AsyncAbandon(srv.ASrvHarness):
    """the same abandonments on AsyncServer (callers are tasks on a virtual event loop, the gather thread is a real thread):
    a deadline that expires while the environment still holds the call, an abandoned stream, a saturated server whose only
    slot belongs to the abandoned request while another request waits for it"""
    name = 'async_abandon'

    def configs(self, tier):
        quick = tier == 'quick'
        d = 1 if quick else 2
        cap = 100000 if quick else 1000000
        return [
            dict(topo='single', capacity=1, gated=['A'], env_wait=True, env_wait_t=3.0,
                 calls=[[[0, 2, False]], [[1, 1000, False]]], late_call=9, oracles=O, bound=d, cap=cap),
            dict(topo='single', capacity=2, gated=['A'], env_wait=True, env_wait_t=3.0, fail={'A': [0]},
                 calls=[[[0, 2, False]], [[1, 1000, False]], [[2, 1000, False]]], late_call=9, oracles=O, bound=d, cap=cap),
            dict(topo='single', capacity=1, gated=['A'], env_wait=True, env_wait_t=3.0, calls=[[[10, 2, False]]],
                 late_call=9, stream=dict(xs=[0, 1], stop_after=1), oracles=O, bound=d, cap=cap),
            dict(topo='single', capacity=4, gated=['A'], calls=[[[10, 1000, False]]], late_call=9,
                 stream=dict(xs=[0, 1, 2], stop_after=1), oracles=O, bound=d, cap=cap),
        ]


HARNESSES = {'timeout_race': TimeoutRace, 'stream_drop': StreamDrop, 'async_abandon': AsyncAbandon}
PLAN = {'quick': ['timeout_race', 'stream_drop', 'async_abandon'], 'thorough': ['timeout_race', 'stream_drop', 'async_abandon']}
