"""Self-test: exhaustive differential test of the simulated primitives against the real ones.

Every single-thread operation sequence up to length 4 over the non-blocking operations of Lock, RLock, Condition and
SimpleQueue is run on the REAL object (saved before the simulated classes were installed) and on the SIMULATED object inside a
controlled execution; the observations (return values, exception types) must agree step by step."""
import itertools
import queue

from mc import sched
from mc.explore import Harness

OPS = {
    'Lock': ['acquire_nb', 'acquire_t0', 'release', 'locked'],
    'RLock': ['acquire_nb', 'acquire_t0', 'release'],
    'Condition': ['acquire_nb', 'release', 'notify', 'notify_all', 'wait_t0'],
    'SimpleQueue': ['put', 'get_nowait', 'get_t0', 'empty', 'qsize'],
}


def apply(obj, op, i):
    try:
        if op == 'acquire_nb':
            return obj.acquire(False)
        if op == 'acquire_t0':
            return obj.acquire(True, 0)
        if op == 'release':
            return obj.release()
        if op == 'locked':
            return obj.locked()
        if op == 'notify':
            return obj.notify()
        if op == 'notify_all':
            return obj.notify_all()
        if op == 'wait_t0':
            return obj.wait(0)
        if op == 'put':
            return obj.put(i)
        if op == 'get_nowait':
            return obj.get_nowait()
        if op == 'get_t0':
            return obj.get(True, 0)
        if op == 'empty':
            return obj.empty()
        if op == 'qsize':
            return obj.qsize()
    except (RuntimeError, queue.Empty, ValueError) as e:
        return 'raised:' + type(e).__name__
    raise AssertionError(op)


def make(kind, real):
    R = sched.REAL
    if kind == 'Lock':
        return R.Lock() if real else sched.SimLock()
    if kind == 'RLock':
        return R.RLock() if real else sched.SimRLock()
    if kind == 'Condition':
        return R.Condition(R.Lock()) if real else sched.SimCondition(sched.SimLock())
    if kind == 'SimpleQueue':
        return R.SimpleQueue() if real else sched.SimSimpleQueue()


class DiffH(Harness):
    name = 'diff'
    kind = 'cases'

    def setup(self):
        sched.install()
        return []

    def configs(self, tier):
        return [dict(kind=k) for k in OPS]

    def cases(self, cfg):
        ops = OPS[cfg['kind']]
        for L in range(1, 5):
            for seq in itertools.product(ops, repeat=L):
                yield list(seq)

    def run_case(self, cfg, case):
        kind = cfg['kind']
        robj = make(kind, True)
        real = [apply(robj, op, i) for i, op in enumerate(case)]

        def body():
            sobj = make(kind, False)
            return [apply(sobj, op, i) for i, op in enumerate(case)]

        r = sched.run_once(body)
        sim = r.value if r.error is None and r.exc is None else [f'ERR {r.error} {r.exc!r}']
        v = None
        if sim != real:
            v = ('primitive-differs:' + kind, f'{kind} {case}: real {real} vs simulated {sim}')
        return (repr(real), v, len(case) > 1)


HARNESSES = {'diff': DiffH}
