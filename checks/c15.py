"""C15  Exceptions keep type, args and traceback text across processes.

seqex: complete enumeration of exception classes (builtin, OSError with errno, UnicodeDecodeError, custom with extra
attribute, custom with keyword-only __init__ + __reduce__, BaseException subclass, with __cause__, with __context__)
x raise depth {1, 2, 4} x number of pickle hops {1, 2, 3} x per-hop mode {forward the object, re-raise it and wrap again}
x nesting {plain, member 0 / 1 / 2 of an EnsembleError, fail_fast or not (incl. the fail-fast shapes where the failing
member is not among the first n slots)}.  Each case builds the exception by really raising it
through `depth` frames, wraps it with the real RemoteException and sends it through real pickle.dumps/loads hops.
Oracle: class and args preserved, is_remote_exception true, get_remote_traceback contains the originally formatted
traceback (identical text on forward-only chains), nested ensemble members likewise.
One conformance case per class goes through a real multiprocessing pipe into a real child process and back.
"""
from __future__ import annotations

import itertools
import pickle
import traceback

from mc.explore import Harness

PROPERTY = 'C15'


class CustomAttr(Exception):
    def __init__(self, msg, code):
        super().__init__(msg, code)
        self.code = code


class CustomKw(Exception):
    def __init__(self, *, name, n=0):
        super().__init__(f'{name}:{n}')
        self.name = name
        self.n = n

    def __reduce__(self):
        return (_rebuild_kw, (self.name, self.n))


def _rebuild_kw(name, n):
    return CustomKw(name=name, n=n)


class CustomBase(BaseException):
    pass


def make(kind):
    if kind == 'ValueError':
        return ValueError('bad value', 3)
    if kind == 'KeyError':
        return KeyError('k')
    if kind == 'OSError':
        return OSError(2, 'No such file', 'fname')
    if kind == 'UnicodeDecodeError':
        return UnicodeDecodeError('utf-8', b'\xff\x00', 0, 1, 'invalid start byte')
    if kind == 'CustomAttr':
        return CustomAttr('msg', 42)
    if kind == 'CustomKw':
        return CustomKw(name='nm', n=7)
    if kind == 'CustomBase':
        return CustomBase('base', 1)
    if kind == 'WithCause':
        e = RuntimeError('outer')
        e.__cause__ = ValueError('inner-cause')
        return e
    if kind == 'WithContext':
        return ZeroDivisionError('ctx')
    raise ValueError(kind)


KINDS = ['ValueError', 'KeyError', 'OSError', 'UnicodeDecodeError', 'CustomAttr', 'CustomKw', 'CustomBase', 'WithCause',
         'WithContext']


def site_marker_function_for_traceback(kind, depth):
    if depth > 1:
        return site_marker_function_for_traceback(kind, depth - 1)
    if kind == 'WithCause':
        try:
            raise ValueError('inner-cause')
        except ValueError as inner:
            raise RuntimeError('outer') from inner
    if kind == 'WithContext':
        try:
            {}['missing']
        except KeyError:
            raise ZeroDivisionError('ctx')
    raise make(kind)


def raise_it(kind, depth):
    try:
        site_marker_function_for_traceback(kind, depth)
    except BaseException as e:
        return e


def same_exc(a, b):
    if type(a) is not type(b):
        return False
    if a.args != b.args:
        return False
    for attr in ('code', 'name', 'n', 'errno', 'strerror', 'filename', 'reason', 'start', 'end'):
        if getattr(a, attr, None) != getattr(b, attr, None):
            return False
    return True


def reraise(e):
    """what a hop does when it re-raises the received exception and catches it again"""
    try:
        raise e
    except BaseException as e2:
        return e2


def check_one(orig, orig_tb, got, modes, label):
    from mpservice.multiprocessing.remote_exception import get_remote_traceback, is_remote_exception
    if not same_exc(orig, got):
        return ('type-or-args-lost', f'{label}: sent {orig!r}, received {got!r} ({type(got).__name__}, {got.args})')
    if not is_remote_exception(got):
        return ('not-remote-exception', f'{label}: is_remote_exception false for {got!r}, cause {got.__cause__!r}')
    tb = get_remote_traceback(got)
    if 'site_marker_function_for_traceback' not in tb:
        return ('traceback-lost', f'{label}: remote traceback does not name the failure site: {tb!r}')
    # the originally formatted traceback (without the "[process] " prefix) must be contained
    core = orig_tb[orig_tb.index('Traceback (most recent call last)'):] if 'Traceback (most recent call last)' in orig_tb else orig_tb
    if all(m == 'forward' for m in modes):
        if tb.split('] ', 1)[-1] != core and core not in tb:
            return ('traceback-text-changed', f'{label}: forward-only chain changed the text:\n{tb}\nvs\n{core}')
    else:
        if core.strip().splitlines()[-1] not in tb:
            return ('traceback-lost', f'{label}: original traceback tail not in {tb!r}')
    return None


class HopsH(Harness):
    name = 'hops'
    kind = 'cases'

    def configs(self, tier):
        return [dict(maxhops=3 if tier == 'quick' else 4)]

    def cases(self, cfg):
        for kind in KINDS:
            for depth in (1, 2, 4):
                for hops in range(1, cfg['maxhops'] + 1):
                    for modes in itertools.product(('forward', 'reraise'), repeat=hops - 1):
                        for nesting in ('plain', 'ens0', 'ens1', 'ens0_nofail', 'ens_both', 'ens_ff_mid', 'ens_ff_last'):
                            yield [kind, depth, list(modes), nesting]

    def run_case(self, cfg, case):
        from mpservice.multiprocessing.remote_exception import EnsembleError, RemoteException
        kind, depth, modes, nesting = case
        e = raise_it(kind, depth)
        orig = make(kind) if kind not in ('WithCause', 'WithContext') else e
        orig_tb = ''.join(traceback.format_exception(type(e), e, e.__traceback__))
        label = f'{case}'
        try:
            if nesting == 'plain':
                obj = RemoteException(e)
            else:
                other = raise_it('KeyError', 1)
                if nesting == 'ens0':
                    z = {'y': [RemoteException(e), None], 'n': 1}
                elif nesting == 'ens1':
                    z = {'y': [('A', 1), RemoteException(e)], 'n': 2}
                elif nesting == 'ens0_nofail':
                    z = {'y': [RemoteException(e), RemoteException(other)], 'n': 2}
                elif nesting == 'ens_ff_mid':
                    # fail-fast shapes: `n` counts the members that have reported, it is not a prefix length
                    z = {'y': [None, RemoteException(e), None], 'n': 1}
                elif nesting == 'ens_ff_last':
                    z = {'y': [None, None, RemoteException(e)], 'n': 1}
                else:
                    z = {'y': [RemoteException(other), RemoteException(e)], 'n': 2}
                try:
                    raise EnsembleError(z)
                except EnsembleError as ee:
                    obj = RemoteException(ee)
            got = pickle.loads(pickle.dumps(obj))
            for m in modes:
                if m == 'forward':
                    got = pickle.loads(pickle.dumps(RemoteException(got)))
                else:
                    got = pickle.loads(pickle.dumps(RemoteException(reraise(got))))
        except BaseException as ex:
            return ('crash', ('hop-crashed:' + type(ex).__name__, f'{label}: {ex!r}'), True)
        if nesting == 'plain':
            v = check_one(orig, orig_tb, got, modes, label)
        else:
            from mpservice.multiprocessing.remote_exception import is_remote_exception
            if type(got).__name__ != 'EnsembleError' or not is_remote_exception(got):
                v = ('ensemble-error-lost', f'{label}: received {got!r}')
            else:
                idx = {'ens0': 0, 'ens0_nofail': 0, 'ens_ff_last': 2}.get(nesting, 1)
                ys = got.args[1]['y']
                member = ys[idx]
                if isinstance(member, RemoteException):
                    member = pickle.loads(pickle.dumps(member))
                if not isinstance(member, BaseException):
                    v = ('ensemble-member-lost', f'{label}: member {idx} is {member!r}')
                else:
                    v = check_one(orig, orig_tb, member, modes, label)
                if v is None and nesting == 'ens1' and ys[0] != ('A', 1):
                    v = ('ensemble-member-lost', f'{label}: healthy member changed: {ys[0]!r}')
                if v is None and got.args[1]['n'] != (1 if nesting in ('ens0', 'ens_ff_mid', 'ens_ff_last') else 2):
                    v = ('ensemble-count-lost', f'{label}: n = {got.args[1]["n"]}')
        return (f'{type(got).__name__}', v, len(modes) > 0 or nesting != 'plain')


def _child(conn):
    from mpservice.multiprocessing.remote_exception import RemoteException
    while True:
        kind = conn.recv()
        if kind is None:
            return
        conn.send(RemoteException(raise_it(kind, 2)))


def twins(tier, pool, stats):
    """conformance: one case per class through a real pipe from a real spawned child process"""
    import multiprocessing
    import sys
    ctx = multiprocessing.get_context('spawn')
    a, b = ctx.Pipe()
    p = ctx.Process(target=_child, args=(b,))
    p.start()
    n = 0
    try:
        for kind in KINDS:
            a.send(kind)
            if not a.poll(60):
                raise RuntimeError('conformance child did not answer')
            got = a.recv()
            e = raise_it(kind, 2)
            orig = make(kind) if kind not in ('WithCause', 'WithContext') else e
            tb = ''.join(traceback.format_exception(type(e), e, e.__traceback__))
            v = check_one(orig, tb, got, ['forward'], f'real-process {kind}')
            if v is not None and v[0] != 'traceback-text-changed':
                # line numbers are identical in the child (same file), but the process prefix differs
                cs = stats[0]
                cs.violations.setdefault('real-process:' + v[0], dict(count=1, choices=[kind, 2, [], 'plain'], no_replay=True, detail=v[1]))
            n += 1
        a.send(None)
        p.join(30)
    finally:
        if p.is_alive():
            p.kill()
    return n


HARNESSES = {'hops': HopsH}
PLAN = {'quick': ['hops'], 'thorough': ['hops']}
RULE = ('complete enumeration of class x raise depth x hop count x per-hop mode x nesting; each case really raises, wraps '
        'with RemoteException and round-trips through pickle; non-trivial = more than one hop or nested in EnsembleError')
