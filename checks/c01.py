"""C01  Parallel map is order-preserving and exactly-once  (and the shared harnesses of C08).

fifo_env   real fifo_stream; `func` hands out real concurrent.futures.Future objects that an environment thread
           resolves in EVERY order (choose among the pending ones, or wait for a further submission first).
parmap_pool real Stream.parmap on the real ThreadPoolExecutor (running on simulated primitives); the worker
           function contains scheduling points, so completion order comes from the explored worker schedules.

Oracle C01: output list == reference; the function is called exactly once per accepted element.
Oracle C08 (checks/c08.py, same executions): at every scheduling point pulled - received <= capacity + 3 and
running <= concurrency.
"""
from __future__ import annotations

import concurrent.futures
import threading

from mc import sched
from mc.explore import Exec, Harness, default_verdict

PROPERTY = 'C01'


class Boom(Exception):
    pass


def norm(v):
    if isinstance(v, BaseException):
        return (type(v).__name__,) + tuple(v.args)
    if isinstance(v, tuple):
        return tuple(norm(a) for a in v)
    return v


class FifoExec(Exec):
    """cfg: n, cap, rx (return_x), rex (return_exceptions), fail (index failing in func or None),
    rej (index rejected by the preprocessor or None), mode 'env'|'pool', conc"""

    prop = 'C01'

    def __init__(self, cfg):
        self.cfg = cfg
        self.pulled = 0
        self.received = 0
        self.running = 0
        self.metrics = {'lookahead': 0, 'running': 0}
        self.calls = []
        self.limit = None

    # ---- instrumented pieces
    def source(self):
        import time
        gaps = self.cfg.get('gaps')
        for i in range(self.cfg['n']):
            if gaps and gaps[i]:
                time.sleep(gaps[i])     # a slow, bursty source (virtual time)
            self.pulled += 1
            yield i

    def pre(self, x):
        if x == self.cfg.get('rej'):
            raise Boom('pre', x)
        return x

    def ref(self):
        cfg = self.cfg
        out = []
        calls = []
        for x in range(cfg['n']):
            if x == cfg.get('rej'):
                y = Boom('pre', x)
            else:
                calls.append(x)
                y = Boom('func', x) if x == cfg.get('fail') else x * 10
            if isinstance(y, Boom) and not cfg['rex']:
                out.append(('RAISED',) + norm(y))
                return out, None  # calls beyond the failure are unspecified (look-ahead)
            out.append((x, y) if cfg['rx'] else y)
        return [norm(v) for v in out], calls

    def monitor(self, s):
        la = self.pulled - self.received
        if la > self.metrics['lookahead']:
            self.metrics['lookahead'] = la
        if self.running > self.metrics['running']:
            self.metrics['running'] = self.running
        if self.prop == 'C08':
            if la > self.limit:
                return f'lookahead {la} > {self.limit}'
            if self.cfg['mode'] == 'pool' and self.running > self.cfg['conc']:
                return f'running {self.running} > concurrency {self.cfg["conc"]}'
        return None

    # ---- env-driven futures
    def body(self):
        cfg = self.cfg
        if cfg['mode'] == 'env':
            return self.body_env()
        return self.body_pool()

    def consume(self, it, limit=None):
        out = []
        try:
            for z in it:
                self.received += 1
                out.append(norm(z))
                if limit is not None and len(out) >= limit:
                    break
        except Boom as e:
            out.append(('RAISED',) + norm(e))
        return out

    def body_env(self):
        from mpservice.streamer._streamer import fifo_stream
        cfg = self.cfg
        s = sched.S()
        self.limit = cfg['capacity'] + 3
        pending = []
        self.order = []
        state = dict(stop=False, submitted=0)

        def func(x):
            fut = concurrent.futures.Future()
            self.calls.append(x)
            pending.append((x, fut))
            state['submitted'] += 1
            return fut

        def env():
            can_wait = True
            while True:
                s.block(lambda: bool(pending) or state['stop'], None, on='env-idle')
                if not pending:
                    return
                nopt = len(pending) + (1 if can_wait and not state['stop'] and state['submitted'] < cfg['n'] else 0)
                c = s.choose(nopt, 'complete', costly=self.prop == 'C08')
                if c >= len(pending):
                    # let the feeder submit one more before completing anything (gives up after 1 virtual second,
                    # i.e. when nothing else in the system can move)
                    snap = state['submitted']
                    r = s.block(lambda: state['submitted'] != snap or state['stop'], 1.0, on='env-wait')
                    can_wait = r != 'timeout' and not state['stop']
                    continue
                can_wait = True
                x, fut = pending.pop(c)
                self.order.append(x)
                if not fut.set_running_or_notify_cancel():
                    continue
                if x == cfg.get('fail'):
                    fut.set_exception(Boom('func', x))
                else:
                    fut.set_result(x * 10)

        et = threading.Thread(target=env, name='env')
        et.start()
        it = fifo_stream(self.source(), func, capacity=cfg['capacity'], return_x=cfg['rx'], return_exceptions=cfg['rex'],
                         preprocessor=self.pre if cfg.get('rej') is not None else None)
        out = self.consume(it)
        it.close()
        state['stop'] = True
        et.join()
        return out, list(self.calls)

    def body_pool(self):
        from mpservice.streamer import Stream
        cfg = self.cfg
        s = sched.S()
        self.limit = 2 * cfg['conc'] + 3
        self.waiting = []
        self.released = set()
        self.order = []
        state = dict(stop=False)
        self.state = state

        def env():
            # releases the calls that are inside the worker function, in every order; may first wait for a
            # further call to arrive (gives up after 1 virtual second, i.e. when nothing else can move)
            can_wait = True
            while True:
                s.block(lambda: bool(self.waiting) or state['stop'], None, on='env-idle')
                if not self.waiting:
                    return
                nopt = len(self.waiting) + (1 if can_wait and not state['stop'] and len(self.calls) < cfg['n'] else 0)
                c = s.choose(nopt, 'release', costly=self.prop == 'C08')
                if c >= len(self.waiting):
                    snap = len(self.calls)
                    r = s.block(lambda: len(self.calls) != snap or state['stop'], 1.0, on='env-wait')
                    can_wait = r != 'timeout' and not state['stop']
                    continue
                can_wait = True
                tok = self.waiting.pop(c)
                self.order.append(tok[1])
                self.released.add(tok)

        et = threading.Thread(target=env, name='env')
        et.start()
        outer = self

        class Source:
            def __iter__(self):
                return outer.source()

        stream = Stream(Source()).parmap(self.work, executor='thread', concurrency=cfg['conc'],
                                         return_x=cfg['rx'], return_exceptions=cfg['rex'],
                                         preprocessor=self.pre if cfg.get('rej') is not None else None)
        rounds = cfg.get('rounds', 1)
        for rnd in range(rounds):
            # rounds > 1: the same Stream is iterated again right after a round that ended early (consumer stopped after
            # `stop_after` outputs, or an element failed) while calls of that round may still be inside the worker function
            self.round = rnd
            self.pulled = self.received = 0
            it = iter(stream)
            out = self.consume(it, cfg.get('stop_after') if rnd < rounds - 1 else None)
            it.close()
        state['stop'] = True
        et.join()
        return out, sorted(self.calls)

    def work(self, x):
        s = sched.S()
        self.running += 1
        self.calls.append(x)
        tok = (getattr(self, 'round', 0), x)
        self.waiting.append(tok)
        s.block(lambda: tok in self.released, None, on='work-gate')
        self.running -= 1
        if x == self.cfg.get('fail'):
            raise Boom('func', x)
        return x * 10

    def observe(self, r):
        if r.error is not None:
            return r.error[0]
        if r.exc is not None:
            return 'exc:' + type(r.exc).__name__
        return repr((r.value[0], getattr(self, 'order', None)))[:300]

    def verdict(self, r):
        if self.prop == 'C08':
            if r.error is not None and r.error[0] in ('invariant', 'replay-divergence'):
                return default_verdict(r)
            return None
        v = default_verdict(r)
        if v:
            if v[0].startswith('invariant'):
                return None
            return v
        out, calls = r.value
        eo, ec = self.ref()
        if out != eo:
            return ('wrong-output', f'got {out}, expected {eo} (cfg {self.cfg})')
        if ec is not None and sorted(calls) != ec:
            return ('wrong-calls', f'function called for {sorted(calls)}, expected {ec}')
        if ec is None and len(set(calls)) != len(calls):
            return ('wrong-calls', f'function called twice: {calls}')
        if r.thread_excs:
            return ('thread-exc', repr(r.thread_excs))
        return None


def fifo_codes():
    from mpservice._queues import SingleLane
    from mpservice.streamer import _streamer as S
    codes = []
    for f in (S.fifo_stream, SingleLane.put, SingleLane.get):
        codes += sched.all_codes(f)
    return codes


class FifoEnvH(Harness):
    name = 'fifo_env'
    opts = dict(max_points=4000, timers='free')
    exec_cls = FifoExec

    def setup(self):
        return fifo_codes()

    def configs(self, tier):
        out = []
        quick = tier == 'quick'
        for n, capacity in ((3, 1), (4, 2), (0, 1), (1, 1), (2, 3)):
            for rx, rex in ((False, False), (False, True), (True, False), (True, True)):
                if n != 3 and rx == rex:
                    continue
                variants = [dict()]
                if n >= 3:
                    variants += [dict(fail=1), dict(rej=1), dict(fail=0, rej=2)]
                for var in variants:
                    core = n == 3 and capacity == 1 and not rx and not rex and not var
                    if quick:
                        d = 2 if core else 1      # one two-deviation core also in the quick tier
                    else:
                        d = 2 if n <= 3 else 1
                    out.append(dict(mode='env', n=n, capacity=capacity, rx=rx, rex=rex, bound=d,
                                    cap=(100000 if core else 40000) if quick else 600000, **var))
        # slow / bursty sources: the consumer and the executor sit idle while the source pauses
        for gaps in ([0, 0.5], [0.5, 0, 0.5], [0, 1.0, 0.25]):
            out.append(dict(mode='env', n=len(gaps), capacity=1, rx=True, rex=True, gaps=gaps, bound=1 if quick else 2,
                            cap=40000 if quick else 600000, sched_opts=dict(timers='all', timer_window=50)))
        return out

    def new(self, cfg):
        return self.exec_cls(cfg)


class ParmapPoolH(Harness):
    name = 'parmap_pool'
    opts = dict(max_points=6000, timers='free')
    exec_cls = FifoExec

    def setup(self):
        from mpservice.streamer import _streamer as S
        return fifo_codes() + sched.all_codes(S.Parmapper.__iter__)

    def configs(self, tier):
        out = []
        quick = tier == 'quick'
        for conc, n in ((1, 3), (2, 4)):
            for rx, rex, var in ((False, False, {}), (True, True, dict(fail=1)), (False, True, dict(rej=1)),
                                 (True, False, dict(fail=2))):
                out.append(dict(mode='pool', conc=conc, n=n, rx=rx, rex=rex, bound=1 if quick else 2, **var))
        return out

    def new(self, cfg):
        return self.exec_cls(cfg)


HARNESSES = {'fifo_env': FifoEnvH, 'parmap_pool': ParmapPoolH}
PLAN = {'quick': ['fifo_env', 'parmap_pool'], 'thorough': ['fifo_env', 'parmap_pool']}
ASSUMPTIONS = ['process executor: fifo_stream only sees futures, and the env harness enumerates every completion order '
               'any executor can produce; the ProcessPoolExecutor wiring itself is not explored, only bound to this model by '
               'a free-running twin on real worker processes (54 settings incl. inverted completion order)']


def twins(tier, pool, stats):
    """conformance: Stream.parmap with executor='process' on real worker processes (outputs equal the reference for a grid of settings, incl. inverted completion order)"""
    import os
    import subprocess
    from mc.explore import PY, REPO, VERIF
    env = dict(os.environ, PYTHONPATH=os.path.join(REPO, 'src'))
    try:
        r = subprocess.run([PY, os.path.join(VERIF, 'checks', 'twins', 'c01_proc.py'), 'order'], capture_output=True, text=True,
                           timeout=300, env=env)
        ok = r.returncode == 0
        detail = (r.stdout + r.stderr)[-600:]
    except subprocess.TimeoutExpired:
        ok = False
        detail = 'watchdog: the real-process parmap twin did not finish within 300 s'
    if not ok:
        stats[0].violations.setdefault('process-executor-twin', dict(count=1, choices=[], no_replay=True,
                                                                     detail=f'real worker processes: {detail}'))
        return 0
    return int(r.stdout.split()[-1])
