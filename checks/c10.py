"""C10  tee forks see identical streams and cannot wedge each other.

Real tee(); each fork is consumed by its own simulated thread; Fork.__next__ is traced line by line, so a fork can be
pre-empted between any two lines of the fork step.  Oracle: every fork's list equals the source's elements in order and
every fork ends the way the source ended; the source is pulled once per element and, at every scheduling point, never
more than buffer_size + 2 beyond what the slowest fork has received; no deadlock, no livelock (the timed lock
acquisition in the prefetch path only spins when nothing else can run - spinning past the horizon is a hang).
"""
from __future__ import annotations

import threading

from mc import sched
from mc.explore import Exec, Harness, default_verdict

PROPERTY = 'C10'


class Boom(Exception):
    pass


class Src:
    def __init__(self, n, fail_at):
        self.n = n
        self.i = 0
        self.fail_at = fail_at
        self.pulled = 0
        self.calls_after_end = 0
        self.ended = False

    def __iter__(self):
        return self

    def __next__(self):
        if self.ended:
            self.calls_after_end += 1
            raise StopIteration
        if self.fail_at is not None and self.i == self.fail_at:
            self.ended = True     # like a generator: finished after raising
            raise Boom('src', self.i)
        if self.i >= self.n:
            self.ended = True
            raise StopIteration
        self.i += 1
        self.pulled += 1
        return self.i - 1


class TeeExec(Exec):
    def __init__(self, cfg):
        self.cfg = cfg
        self.metrics = {'ahead': 0}
        self.src = None
        self.outs = None

    def monitor(self, s):
        if self.src is None:
            return None
        ahead = self.src.pulled - min(len(o) for o in self.outs)
        if ahead > self.metrics['ahead']:
            self.metrics['ahead'] = ahead
        if ahead > self.cfg['bs'] + 2:
            return f'source pulled {ahead} beyond the slowest fork (> buffer_size+2 = {self.cfg["bs"] + 2})'

    def body(self):
        from mpservice.streamer import tee
        cfg = self.cfg
        src = Src(cfg['n'], cfg.get('fail'))
        forks = tee(src, cfg['forks'], buffer_size=cfg['bs'])
        outs = [[] for _ in forks]
        ends = [None] * len(forks)
        self.outs = outs
        self.src = src

        def consume(k):
            try:
                for x in forks[k]:
                    outs[k].append(x)
                ends[k] = 'end'
            except Boom:
                ends[k] = 'Boom'

        ts = [threading.Thread(target=consume, args=(k,), name=f'fork{chr(97 + k)}') for k in range(len(forks))]
        for t in ts:
            t.start()
        for t in ts:
            t.join()
        return outs, ends, src.pulled

    def verdict(self, r):
        v = default_verdict(r)
        if v:
            return v
        outs, ends, pulled = r.value
        cfg = self.cfg
        fail = cfg.get('fail')
        m = cfg['n'] if fail is None or fail >= cfg['n'] else fail
        exp = list(range(m))
        exp_end = 'end' if fail is None or fail > cfg['n'] else 'Boom'
        if fail is not None and fail == cfg['n']:
            exp_end = 'Boom'
        for k, o in enumerate(outs):
            if o != exp:
                return ('wrong-elements', f'fork {k} got {o}, expected {exp}; all: {outs} {ends}')
        if any(e != exp_end for e in ends):
            return ('forks-disagree-on-end:' + ','.join(sorted(set(map(str, ends)))),
                    f'source ended with {exp_end}, forks ended {ends}')
        if pulled != m:
            return ('wrong-pull-count', f'pulled {pulled}, expected {m}')
        if r.thread_excs:
            return ('thread-exc', repr(r.thread_excs))
        return None


class TeeH(Harness):
    name = 'tee'
    opts = dict(max_points=4000, timers='free', max_timer_fires=60)

    def setup(self):
        from mpservice.streamer._tee import Fork
        return sched.all_codes(Fork.__next__)

    def configs(self, tier):
        quick = tier == 'quick'
        out = []
        for forks, bs in ((2, 2), (2, 3), (3, 2)):
            for n in (0, 1, 3, 5):
                if forks == 3 and n == 5 and quick:
                    continue
                fails = [None]
                if n in (3, 5):
                    fails += [0, 1, n] if bs == 2 else [2]
                for fail in fails:
                    if forks == 3:
                        d = 1 if quick else 2
                    else:
                        d = 2 if quick else 3
                    out.append(dict(forks=forks, bs=bs, n=n, fail=fail, bound=d, cap=60000 if quick else 600000))
        return out

    def new(self, cfg):
        return TeeExec(cfg)


HARNESSES = {'tee': TeeH}
PLAN = {'quick': ['tee'], 'thorough': ['tee']}
